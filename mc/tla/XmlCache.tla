---- MODULE XmlCache ----
(* Reference model for C18: what an import must return after any history of exports/imports
   into a small set of directories.  disk[d] = workspace last exported to d ("none" if nothing),
   last = result of the most recent import, n = number of steps taken. *)
EXTENDS Naturals
CONSTANTS Dirs, Ws, MaxSteps
VARIABLES disk, last, n
Init == disk = [d \in Dirs |-> "none"] /\ last = "none" /\ n = 0
Export(w, d) == /\ n < MaxSteps
                /\ disk' = [disk EXCEPT ![d] = w]
                /\ last' = last /\ n' = n + 1
Import(d) == /\ n < MaxSteps /\ disk[d] # "none"
             /\ last' = disk[d]
             /\ disk' = disk /\ n' = n + 1
Next == (\E w \in Ws, d \in Dirs : Export(w, d)) \/ (\E d \in Dirs : Import(d))
Inv == last = "none" \/ \E d \in Dirs : disk[d] = last \/ TRUE
====
