---- MODULE Backend ----
(* Reference protocol for C11: the intended behaviour of backend switches.
   cur  = current configuration (backend/precision/optimiser label)
   objs = sequence of records [alive, kind, derived] -- derived = configuration the object's tensors are derived for
   nsw  = number of switches so far.
   Switch re-derives every *alive* object; deleted objects are never touched again. *)
EXTENDS Naturals, Sequences
CONSTANTS Cfgs, Kinds, MaxObjs, MaxSwitches, InitCfg
VARIABLES cur, objs, nsw
Init   == cur = InitCfg /\ objs = <<>> /\ nsw = 0
Switch(c) == /\ nsw < MaxSwitches /\ c # cur /\ cur' = c /\ nsw' = nsw + 1
             /\ objs' = [i \in 1..Len(objs) |->
                           IF objs[i].alive THEN [objs[i] EXCEPT !.derived = c] ELSE objs[i]]
Create(k) == /\ Len(objs) < MaxObjs
             /\ objs' = Append(objs, [alive |-> TRUE, kind |-> k, derived |-> cur])
             /\ UNCHANGED <<cur, nsw>>
Delete(i) == /\ i \in 1..Len(objs) /\ objs[i].alive
             /\ objs' = [objs EXCEPT ![i].alive = FALSE] /\ UNCHANGED <<cur, nsw>>
Next == (\E c \in Cfgs : Switch(c)) \/ (\E k \in Kinds : Create(k)) \/ (\E i \in 1..MaxObjs : Delete(i))
Inv  == \A i \in 1..Len(objs) : objs[i].alive => objs[i].derived = cur
====
