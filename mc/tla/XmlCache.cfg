CONSTANTS
  Dirs = {"dA", "dB"}
  Ws = {"W1", "W2", "W3"}
  MaxSteps = 4
INIT Init
NEXT Next
INVARIANT Inv
