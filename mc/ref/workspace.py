"""List-of-dicts reference model of workspace operations, written from the Workspace docstrings and the property text.

Only facts the property asserts are modelled; for the 'unsafe' left/right outer joins and for merge_channels the model
states what must be present, not a full result."""
from __future__ import annotations

import copy


class Refused(Exception):
    pass


def names(items):
    return [x["name"] for x in items]


def modifiers_of(ws):
    return {(m["name"], m["type"]) for c in ws["channels"] for s in c["samples"] for m in s["modifiers"]}


def prune(ws, modifiers=(), modifier_types=(), samples=(), channels=(), measurements=()):
    mods = {n for n, _ in modifiers_of(ws)}
    types = {t for _, t in modifiers_of(ws)}
    samp = {s["name"] for c in ws["channels"] for s in c["samples"]}
    for x in modifiers:
        if x not in mods:
            raise Refused(f"unknown modifier {x}")
    for x in modifier_types:
        if x not in types:
            raise Refused(f"unknown modifier type {x}")
    for x in samples:
        if x not in samp:
            raise Refused(f"unknown sample {x}")
    for x in channels:
        if x not in names(ws["channels"]):
            raise Refused(f"unknown channel {x}")
    for x in measurements:
        if x not in names(ws["measurements"]):
            raise Refused(f"unknown measurement {x}")
    out = {"version": ws["version"], "channels": [], "measurements": [], "observations": []}
    for c in ws["channels"]:
        if c["name"] in channels:
            continue
        nc = {"name": c["name"], "samples": []}
        for s in c["samples"]:
            if s["name"] in samples:
                continue
            nc["samples"].append({"name": s["name"], "data": copy.deepcopy(s["data"]),
                                  "modifiers": [copy.deepcopy(m) for m in s["modifiers"] if m["name"] not in modifiers and m["type"] not in modifier_types]})
        out["channels"].append(nc)
    for m in ws["measurements"]:
        if m["name"] in measurements:
            continue
        out["measurements"].append({"name": m["name"], "config": {"poi": m["config"]["poi"],
                                    "parameters": [copy.deepcopy(p) for p in m["config"]["parameters"] if p["name"] not in modifiers]}})
    out["observations"] = [copy.deepcopy(o) for o in ws["observations"] if o["name"] not in channels]
    return out


def rename(ws, modifiers=None, samples=None, channels=None, measurements=None):
    modifiers, samples, channels, measurements = modifiers or {}, samples or {}, channels or {}, measurements or {}
    mods = {n for n, _ in modifiers_of(ws)}
    samp = {s["name"] for c in ws["channels"] for s in c["samples"]}
    for x in modifiers:
        if x not in mods:
            raise Refused(x)
    for x in samples:
        if x not in samp:
            raise Refused(x)
    for x in channels:
        if x not in names(ws["channels"]):
            raise Refused(x)
    for x in measurements:
        if x not in names(ws["measurements"]):
            raise Refused(x)
    out = copy.deepcopy({k: ws[k] for k in ("channels", "measurements", "observations", "version")})
    for c in out["channels"]:
        c["name"] = channels.get(c["name"], c["name"])
        for s in c["samples"]:
            s["name"] = samples.get(s["name"], s["name"])
            for m in s["modifiers"]:
                m["name"] = modifiers.get(m["name"], m["name"])
    for m in out["measurements"]:
        m["name"] = measurements.get(m["name"], m["name"])
        m["config"]["poi"] = modifiers.get(m["config"]["poi"], m["config"]["poi"])
        for p in m["config"]["parameters"]:
            p["name"] = modifiers.get(p["name"], p["name"])
    for o in out["observations"]:
        o["name"] = channels.get(o["name"], o["name"])
    return out


def sort(ws):
    out = copy.deepcopy({k: ws[k] for k in ("channels", "measurements", "observations", "version")})
    out["channels"].sort(key=lambda e: e["name"])
    for c in out["channels"]:
        c["samples"].sort(key=lambda e: e["name"])
        for s in c["samples"]:
            s["modifiers"].sort(key=lambda e: (e["name"], e["type"]))
    out["measurements"].sort(key=lambda e: e["name"])
    for m in out["measurements"]:
        m["config"]["parameters"].sort(key=lambda e: e["name"])
    out["observations"].sort(key=lambda e: e["name"])
    return out


def by_name(items):
    return {x["name"]: x for x in items}


def combine_facts(left, right, join, merge):
    """-> ('refuse', why) | ('valueerror', why) | ('ok', facts) where facts = dict(channels=must-contain {name: def or None}, observations=..., measurements=...).
    A value of None means 'present, content unspecified by the property'."""
    if join not in ("none", "outer", "left outer", "right outer"):
        return "valueerror", "join"
    if merge and join == "none":
        return "valueerror", "merge with none"
    if left["version"] != right["version"]:
        return "refuse", "version"
    facts = {}
    for key in ("channels", "observations", "measurements"):
        L, Rr = by_name(left[key]), by_name(right[key])
        common = set(L) & set(Rr)
        must = {}
        if join == "none" and common:
            return "refuse", f"common {key}"
        for n in set(L) | set(Rr):
            if n not in common:
                must[n] = L.get(n, Rr.get(n))
            elif join == "outer":
                if key == "measurements":
                    if L[n]["config"]["poi"] != Rr[n]["config"]["poi"]:
                        return "refuse", "poi"
                    pl, pr = by_name(L[n]["config"]["parameters"]), by_name(Rr[n]["config"]["parameters"])
                    for pn in set(pl) & set(pr):
                        if pl[pn] != pr[pn]:
                            return "refuse", "parameter config"
                    must[n] = {"name": n, "config": {"poi": L[n]["config"]["poi"], "parameters": {**pl, **pr}}}
                elif key == "channels" and merge:
                    must[n] = None  # union of samples by name; content of a sample never mixed (checked separately)
                else:
                    if L[n] != Rr[n]:
                        return "refuse", f"clashing {key}"
                    must[n] = L[n]
            else:  # left/right outer: the primary side wins (documented as unsafe: no refusal)
                prim = L if join == "left outer" else Rr
                must[n] = None if (key == "channels" and merge) else prim[n]
                if key == "measurements":
                    must[n] = prim[n]
        facts[key] = must
    return "ok", facts
