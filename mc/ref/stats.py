"""Closed-form / 1-D-convex reference solutions for counting models, and the arXiv:1007.1727 formulae.

Families (DESIGN.md C05): F1 POI-only counting models (any bins/channels): rate_b = mu*s_b + b_b.
F2a on/off: one bin, rate = mu*s + gamma*b, Poisson constraint Pois(a | gamma*tau) (pyhf shapesys).
F2b signal + control region with a free background normalisation k (normfactor): SR mu*s + k*b1, CR k*b2.
Profiling over the single nuisance is a quadratic (closed form); the POI direction is solved by bisection on the
derivative of the profiled objective (convex in the region used).  All in mpmath.
"""
from __future__ import annotations

import mpmath as mp

mp.mp.dps = 30
M = mp.mpf


def _pois2nll(n, lam):
    """-2 log Pois(n | lam) continued to real n."""
    n, lam = M(n), M(lam)
    if lam <= 0:
        return mp.inf if n > 0 or lam < 0 else M(0)
    return -2 * (n * mp.log(lam) - lam - mp.loggamma(n + 1))


def _bisect_min(df, lo, hi, iters=200):
    """argmin of a convex function on [lo,hi] given its derivative."""
    lo, hi = M(lo), M(hi)
    if df(lo) >= 0:
        return lo
    if df(hi) <= 0:
        return hi
    for _ in range(iters):
        mid = (lo + hi) / 2
        if df(mid) > 0:
            hi = mid
        else:
            lo = mid
    return (lo + hi) / 2


class Counting:
    """kind: 'poi' (s,b lists of lists per channel) | 'onoff' (s,b,db scalars) | 'srcr' (s,b1,b2)."""

    def __init__(self, kind, **kw):
        self.kind = kind
        self.kw = kw
        if kind == "poi":
            self.s = [x for ch in kw["s"] for x in ch]
            self.b = [x for ch in kw["b"] for x in ch]
            self.nmain, self.naux, self.npars = len(self.s), 0, 1
        elif kind == "onoff":
            self.s, self.b, self.db = kw["s"], kw["b"], kw["db"]
            self.tau = (M(self.b) / M(self.db)) ** 2
            self.nmain, self.naux, self.npars = 1, 1, 2
        elif kind == "srcr":
            self.s, self.b1, self.b2 = kw["s"], kw["b1"], kw["b2"]
            self.nmain, self.naux, self.npars = 2, 0, 2
        else:
            raise ValueError(kind)

    # ---- pyhf spec -------------------------------------------------------
    def spec(self):
        if self.kind == "poi":
            chans = []
            for ci, (ss, bb) in enumerate(zip(self.kw["s"], self.kw["b"])):
                chans.append({"name": f"ch{ci}", "samples": [
                    {"name": "sig", "data": list(ss), "modifiers": [{"name": "mu", "type": "normfactor", "data": None}]},
                    {"name": "bkg", "data": list(bb), "modifiers": []}]})
            return {"channels": chans}
        if self.kind == "onoff":
            return {"channels": [{"name": "ch0", "samples": [
                {"name": "sig", "data": [self.s], "modifiers": [{"name": "mu", "type": "normfactor", "data": None}]},
                {"name": "bkg", "data": [self.b], "modifiers": [{"name": "unc", "type": "shapesys", "data": [self.db]}]}]}]}
        return {"channels": [
            {"name": "a_sr", "samples": [
                {"name": "sig", "data": [self.s], "modifiers": [{"name": "mu", "type": "normfactor", "data": None}]},
                {"name": "bkg", "data": [self.b1], "modifiers": [{"name": "k", "type": "normfactor", "data": None}]}]},
            {"name": "b_cr", "samples": [
                {"name": "bkg", "data": [self.b2], "modifiers": [{"name": "k", "type": "normfactor", "data": None}]}]}]}

    def nominal_aux(self):
        return [float(self.tau)] if self.kind == "onoff" else []

    def par_names(self):
        return {"poi": ["mu"], "onoff": ["mu", "unc"], "srcr": ["k", "mu"]}[self.kind]  # sorted order, as pyhf reports

    def vector(self, mu, nuis):
        """parameter vector in pyhf's (sorted-name) order."""
        if self.kind == "poi":
            return [float(mu)]
        if self.kind == "onoff":
            return [float(mu), float(nuis)]
        return [float(nuis), float(mu)]

    def poi_index(self):
        return {"poi": 0, "onoff": 0, "srcr": 1}[self.kind]

    # ---- likelihood ------------------------------------------------------
    def rates(self, mu, nuis=None):
        mu = M(mu)
        if self.kind == "poi":
            return [mu * M(s) + M(b) for s, b in zip(self.s, self.b)]
        if self.kind == "onoff":
            return [mu * M(self.s) + M(nuis) * M(self.b)]
        return [mu * M(self.s) + M(nuis) * M(self.b1), M(nuis) * M(self.b2)]

    def twice_nll(self, mu, nuis, data):
        lam = self.rates(mu, nuis)
        tot = sum(_pois2nll(n, l) for n, l in zip(data[: self.nmain], lam))
        if self.kind == "onoff":
            tot += _pois2nll(data[1], M(nuis) * self.tau)
        return tot

    def expected_data(self, mu, nuis=None):
        out = [x for x in self.rates(mu, nuis)]
        if self.kind == "onoff":
            out.append(M(nuis) * self.tau)
        return out

    def profile_nuis(self, mu, data):
        """conditional MLE of the nuisance at fixed mu (closed-form quadratic), clipped to pyhf's bounds."""
        mu = M(mu)
        if self.kind == "poi":
            return None
        if self.kind == "onoff":
            n, a, s, b, tau = M(data[0]), M(data[1]), M(self.s), M(self.b), self.tau
            # n b/(mu s + g b) - b + a/g - tau = 0  ->  (b+tau) b g^2 + ((b+tau) mu s - n b - a b) g - a mu s = 0
            A = (b + tau) * b
            B = (b + tau) * mu * s - n * b - a * b
            Cc = -a * mu * s
            lo, hi = M("1e-10"), M(10)
        else:
            n1, n2, s, b1, b2 = M(data[0]), M(data[1]), M(self.s), M(self.b1), M(self.b2)
            # n1 b1/(mu s + k b1) - b1 + n2/k - b2 = 0 -> (b1+b2) b1 k^2 + ((b1+b2) mu s - n1 b1 - n2 b1) k - n2 mu s = 0
            A = (b1 + b2) * b1
            B = (b1 + b2) * mu * s - n1 * b1 - n2 * b1
            Cc = -n2 * mu * s
            lo, hi = M(0), M(10)
        disc = B * B - 4 * A * Cc
        g = (-B + mp.sqrt(disc)) / (2 * A)
        return min(max(g, lo), hi)

    def profiled(self, mu, data):
        g = self.profile_nuis(mu, data)
        return self.twice_nll(mu, g, data), g

    def fit(self, data, bounds=(0, 10)):
        """global MLE with the POI in `bounds`: (muhat, nuis, 2NLL)."""
        lo, hi = M(bounds[0]), M(bounds[1])
        # keep rates positive
        h = M("1e-9")

        def df(mu):
            return (self.profiled(mu + h, data)[0] - self.profiled(mu - h, data)[0]) / (2 * h)

        if self.kind == "poi":
            def df(mu):  # exact derivative
                return 2 * sum(M(s) * (1 - M(n) / (mu * M(s) + M(b))) for s, b, n in zip(self.s, self.b, data))
        lo_eff = lo
        # smallest mu keeping all rates positive
        neg = [-M(b) / M(s) for s, b in zip(self.s if self.kind == "poi" else [self.s], self.b if self.kind == "poi" else [0]) if M(s) > 0]
        if self.kind == "poi" and neg:
            lo_eff = max(lo, max(neg) + M("1e-12"))
        muhat = _bisect_min(df, lo_eff if self.kind == "poi" else lo + (h if lo < 0 else 0), hi - h)
        if self.kind != "poi" and lo >= 0 and muhat <= lo + 2 * h:
            muhat = lo if self.profiled(lo, data)[0] <= self.profiled(muhat, data)[0] else muhat
        val, g = self.profiled(muhat, data)
        return muhat, g, val

    # ---- statistics ------------------------------------------------------
    def tmu(self, mu, data, bounds=(0, 10)):
        muhat, g, v0 = self.fit(data, bounds)
        v1, g1 = self.profiled(mu, data)
        return max(M(0), v1 - v0), muhat

    def qmu(self, mu, data, bounds=(0, 10)):
        t, muhat = self.tmu(mu, data, bounds)
        return (M(0) if muhat > mu else t), muhat

    def q0(self, data, bounds=(0, 10)):
        t, muhat = self.tmu(0, data, bounds)
        return (M(0) if muhat < 0 else t), muhat

    def asimov(self, mu_a, data):
        _, g = self.profiled(mu_a, data)
        return self.expected_data(mu_a, g)


def Phi(x):
    return mp.ncdf(x)


def asymptotic(ts, q, qa, nsigma=(2, 1, 0, -1, -2), clipped=False):
    """(CLsb, CLb, CLs, [expected CLs or CLsb for q0])."""
    q, qa = M(q), M(qa)
    sq, sa = mp.sqrt(q), mp.sqrt(qa)
    if ts == "qtilde" and q > qa:
        zsb, zb = (q + qa) / (2 * sa), (q - qa) / (2 * sa)
    else:
        zsb, zb = sq, sq - sa
    clsb, clb = Phi(-zsb), Phi(-zb)
    exp = []
    for n in nsigma:
        ne = max(M(n), -sa) if clipped else M(n)
        exp.append(Phi(-ne - sa) if ts == "q0" else Phi(-ne - sa) / Phi(-ne))
    return clsb, clb, clsb / clb, exp


def hypotest_reference(model, mu, data, ts="qtilde", clipped=False, bounds=None):
    """analytic asymptotic hypothesis test for a Counting model: dict(obs, tails, expected, q, qA, muhat)."""
    bounds = bounds or ((-5, 10) if ts == "q" else (0, 10))
    if ts == "q0":
        q, muhat = model.q0(data, bounds)
        asim = model.asimov(1, data)
        qa, _ = model.q0(asim, bounds)
    else:
        q, muhat = model.qmu(mu, data, bounds)
        asim = model.asimov(0, data)
        qa, _ = model.qmu(mu, asim, bounds)
    clsb, clb, cls, exp = asymptotic(ts, q, qa, clipped=clipped)
    return dict(obs=clsb if ts == "q0" else cls, tails=[clb] if ts == "q0" else [clsb, clb], expected=exp, q=q, qA=qa, muhat=muhat, asimov=asim)
