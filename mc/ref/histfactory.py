"""Reference HistFactory interpreter: by name, cell by cell, no tensors, no sorting.

Written from the HistFactory definition (CERN-OPEN-2012-016) and pyhf's *documentation* of
the seven modifier types, not from pyhf's tensor code.  All arithmetic in mpmath (40 digits).

    rate[c][b] = clip_bin( sum_{s in c} clip_sample( prod_{mult m of (c,s)} F_m(theta_m, b)
                                               * ( nom[c][s][b] + sum_{histosys m} D_m(alpha_m, b) ) ) )
    logL = sum_{c,b} logPois(n_cb | rate_cb) + sum_{constrained components} constraint term
"""
from __future__ import annotations

import mpmath as mp

mp.mp.dps = 40
M = mp.mpf

DEFAULT_CODES = {"normsys": "code4", "histosys": "code4p"}


# ----------------------------------------------------------------------------- interpolation
def interp_add(code, a, dn, nom, up):
    """additive shift Delta(alpha) for a histosys-like variation (published formulae)."""
    a = M(a)
    dn, nom, up = M(dn), M(nom), M(up)
    du, dd = up - nom, nom - dn
    if code == "code0":
        return a * du if a >= 0 else a * dd
    if code == "code2":
        A = (up + dn) / 2 - nom
        B = (up - dn) / 2
        if a > 1:
            return (B + 2 * A) * (a - 1) + (A + B)
        if a < -1:
            return (B - 2 * A) * (a + 1) + (A - B)
        return A * a * a + B * a
    if code == "code4p":
        if a > 1:
            return du * a
        if a < -1:
            return dd * a
        S = (du + dd) / 2
        Aa = (du - dd) / 16
        return a * (S + a * Aa * (15 + a * a * (-10 + a * a * 3)))
    raise ValueError(code)


_c4cache = {}


def code4_coeffs(rup, rdn, a0=1):
    """coefficients a_1..a_6 of 1 + sum a_i alpha^i from the six boundary conditions
    (value, first and second derivative match the exponential pieces at +-a0), exact solve."""
    key = (str(rup), str(rdn), str(a0))
    if key in _c4cache:
        return _c4cache[key]
    a0 = M(a0)
    rup, rdn = M(rup), M(rdn)
    A = mp.matrix(6, 6)
    b = mp.matrix(6, 1)
    lu, ld = mp.log(rup), mp.log(rdn)
    for j in range(6):
        p = j + 1
        A[0, j] = a0 ** p
        A[1, j] = (-a0) ** p
        A[2, j] = p * a0 ** (p - 1)
        A[3, j] = p * (-a0) ** (p - 1)
        A[4, j] = p * (p - 1) * a0 ** (p - 2) if p >= 2 else 0
        A[5, j] = p * (p - 1) * (-a0) ** (p - 2) if p >= 2 else 0
    b[0] = rup ** a0 - 1
    b[1] = rdn ** a0 - 1
    b[2] = lu * rup ** a0
    b[3] = -ld * rdn ** a0
    b[4] = lu ** 2 * rup ** a0
    b[5] = ld ** 2 * rdn ** a0
    x = mp.lu_solve(A, b)
    _c4cache[key] = [x[i] for i in range(6)]
    return _c4cache[key]


def interp_mul(code, a, lo, hi, a0=1):
    """multiplicative factor F(alpha) for a normsys-like variation."""
    a = M(a)
    lo, hi = M(lo), M(hi)
    if code == "code1":
        return hi ** a if a >= 0 else lo ** (-a)
    if code == "code4":
        if a >= a0:
            return hi ** a
        if a <= -a0:
            return lo ** (-a)
        c = code4_coeffs(hi, lo, a0)
        return 1 + sum(c[i] * a ** (i + 1) for i in range(6))
    raise ValueError(code)


# ----------------------------------------------------------------------------- parameters
def nbins(channel):
    return len(channel["samples"][0]["data"])


def paramsets(spec):
    """name -> dict(kind, n, constraint, inits, bounds, fixed, auxdata, sigmas|factors) by *name* only,
    defaults per the modifier documentation, then measurement-level overrides applied verbatim."""
    ps = {}
    for c in spec["channels"]:
        nb = nbins(c)
        for s in c["samples"]:
            for m in s["modifiers"]:
                t, n = m["type"], m["name"]
                if t in ("normsys", "histosys"):
                    ps.setdefault(n, dict(kind="alpha", n=1, constraint="normal", inits=[0.0], bounds=[(-5.0, 5.0)],
                                          fixed=[False], auxdata=[0.0], sigmas=[1.0]))
                elif t == "normfactor":
                    ps.setdefault(n, dict(kind="free1", n=1, constraint=None, inits=[1.0], bounds=[(0, 10)], fixed=[False]))
                elif t == "lumi":
                    ps.setdefault(n, dict(kind="lumi", n=1, constraint="normal", inits=None, bounds=None, fixed=[False],
                                          auxdata=None, sigmas=None))
                elif t == "shapefactor":
                    ps.setdefault(n, dict(kind="freeN", n=nb, constraint=None, inits=[1.0] * nb, bounds=[(0.0, 10.0)] * nb,
                                          fixed=[False] * nb))
                elif t == "shapesys":
                    tau, fixed = [], []
                    for x, u in zip(s["data"], m["data"]):
                        ok = x > 0 and u > 0
                        tau.append((M(x) / M(u)) ** 2 if ok else M(1))
                        fixed.append(not ok)
                    ps[n] = dict(kind="shapesys", n=nb, constraint="poisson", inits=[1.0] * nb, bounds=[(1e-10, 10.0)] * nb,
                                 fixed=fixed, auxdata=list(tau), factors=list(tau), channel=c["name"])
                elif t == "staterror":
                    d = ps.setdefault(n, dict(kind="staterror", n=nb, constraint="normal", inits=[1.0] * nb,
                                              bounds=[(1e-10, 10.0)] * nb, channel=c["name"],
                                              _num=[M(0)] * nb, _den=[M(0)] * nb, auxdata=[1.0] * nb))
                    d["_num"] = [a + M(u) ** 2 for a, u in zip(d["_num"], m["data"])]
                    d["_den"] = [a + M(x) for a, x in zip(d["_den"], s["data"])]
    for n, d in ps.items():
        if d["kind"] == "staterror":
            delta = [mp.sqrt(a) / b if b > 0 else M(0) for a, b in zip(d.pop("_num"), d.pop("_den"))]
            d["fixed"] = [x == 0 for x in delta]
            d["sigmas"] = [x if x != 0 else M(1) for x in delta]
    # measurement-level overrides
    for p in spec.get("parameters", []):
        d = ps.get(p["name"])
        if d is None:
            continue
        for k in ("inits", "auxdata", "sigmas", "factors"):
            if k in p:
                d[k] = list(p[k])
        if "bounds" in p:
            d["bounds"] = [tuple(b) for b in p["bounds"]]
        if "fixed" in p:
            d["fixed"] = [bool(p["fixed"])] * d["n"]
    return ps


# ----------------------------------------------------------------------------- rates
def sample_rates(spec, pars, codes=None, clip_sample=None):
    """channel -> sample -> list of rates."""
    codes = codes or DEFAULT_CODES
    out = {}
    for c in spec["channels"]:
        nb = nbins(c)
        per = {}
        for s in c["samples"]:
            vals = []
            for b in range(nb):
                add = M(s["data"][b])
                fac = M(1)
                for m in s["modifiers"]:
                    t, n = m["type"], m["name"]
                    p = pars[n]
                    if t == "histosys":
                        add += interp_add(codes["histosys"], p[0], m["data"]["lo_data"][b], s["data"][b], m["data"]["hi_data"][b])
                    elif t == "normsys":
                        fac *= interp_mul(codes["normsys"], p[0], m["data"]["lo"], m["data"]["hi"])
                    elif t in ("normfactor", "lumi"):
                        fac *= M(p[0])
                    elif t in ("shapefactor", "shapesys", "staterror"):
                        fac *= M(p[b])
                v = fac * add
                if clip_sample is not None:
                    v = max(v, M(clip_sample))
                vals.append(v)
            per[s["name"]] = vals
        out[c["name"]] = per
    return out


def expected(spec, pars, codes=None, clip_sample=None, clip_bin=None):
    """channel name -> list of rates."""
    per = sample_rates(spec, pars, codes, clip_sample)
    out = {}
    for c in spec["channels"]:
        nb = nbins(c)
        tot = [M(0)] * nb
        for s in c["samples"]:
            tot = [a + b for a, b in zip(tot, per[c["name"]][s["name"]])]
        if clip_bin is not None:
            tot = [max(v, M(clip_bin)) for v in tot]
        out[c["name"]] = tot
    return out


# ----------------------------------------------------------------------------- densities
def logpois(n, lam):
    n, lam = M(n), M(lam)
    if lam == 0:
        return M(0) if n == 0 else -mp.inf
    return n * mp.log(lam) - lam - mp.loggamma(n + 1)


def lognorm(x, mu, sig):
    x, mu, sig = M(x), M(mu), M(sig)
    return -mp.log(sig * mp.sqrt(2 * mp.pi)) - ((x - mu) / sig) ** 2 / 2


def main_logpdf(spec, pars, maindata, codes=None, clip_sample=None, clip_bin=None, terms=None):
    ex = expected(spec, pars, codes, clip_sample, clip_bin)
    tot = M(0)
    mag = M(0)
    for ch, rates in ex.items():
        for n, lam in zip(maindata[ch], rates):
            v = logpois(n, lam)
            tot += v
            mag += abs(M(n) * mp.log(lam)) + abs(lam) + abs(mp.loggamma(M(n) + 1)) if lam > 0 else 0
    if terms is not None:
        terms.append(mag)
    return tot


def constraint_logpdf(spec, pars, aux, ps=None, terms=None):
    """aux: name -> list of auxiliary measurements (independent of the nominal values)."""
    ps = ps or paramsets(spec)
    tot = M(0)
    mag = M(0)
    for name, d in ps.items():
        if d["constraint"] == "normal":
            for b in range(d["n"]):
                v = lognorm(aux[name][b], pars[name][b], d["sigmas"][b])
                tot += v
                mag += abs(v) + 1
        elif d["constraint"] == "poisson":
            for b in range(d["n"]):
                lam = M(pars[name][b]) * M(d["factors"][b])
                v = logpois(aux[name][b], lam)
                tot += v
                mag += abs(M(aux[name][b]) * mp.log(lam)) + abs(lam) + abs(mp.loggamma(M(aux[name][b]) + 1))
    if terms is not None:
        terms.append(mag)
    return tot


def logpdf(spec, pars, maindata, aux, codes=None, ps=None, clip_sample=None, clip_bin=None, terms=None):
    return main_logpdf(spec, pars, maindata, codes, clip_sample, clip_bin, terms) + constraint_logpdf(spec, pars, aux, ps, terms)


def expected_aux(spec, pars, ps=None):
    """name -> constraint means in the unit of the auxiliary measurement (gamma*tau for Poisson terms)."""
    ps = ps or paramsets(spec)
    out = {}
    for name, d in ps.items():
        if d["constraint"] == "normal":
            out[name] = [M(x) for x in pars[name]]
        elif d["constraint"] == "poisson":
            out[name] = [M(x) * M(f) for x, f in zip(pars[name], d["factors"])]
    return out
