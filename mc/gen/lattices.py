"""Parameter points, data and auxiliary-data lattices (DESIGN.md 3.2). Everything is keyed by
*name*; vectors are assembled through config.par_slice / channel_slices / auxdata_order only."""
from __future__ import annotations

from mc.ref import histfactory as H

SEED_OFFSETS = [0.0, 0.0137, -0.0211, 0.0309, -0.0083, 0.0171, 0.0253, -0.0149]


def seed_offset(seed):
    return SEED_OFFSETS[int(seed) % len(SEED_OFFSETS)]


def points(spec, seed=0, ps=None, boundary=True):
    """list of (label, {name: [values]}) — pairwise distinct non-neutral components."""
    ps = ps or H.paramsets(spec)
    names = sorted(ps)
    off = seed_offset(seed)
    out = []
    p0 = {n: [float(x) for x in (ps[n]["inits"] or [1.0])] for n in names}
    out.append(("P0", p0))
    p1, p2 = {}, {}
    for i, n in enumerate(names):
        d = ps[n]
        sgn = 1 if i % 2 == 0 else -1
        if d["kind"] == "alpha":
            p1[n] = [round(sgn * (0.37 + 0.07 * i) + off, 6)]
            p2[n] = [round(-sgn * (1.6 + 0.13 * i) + off, 6)]
        elif d["kind"] == "lumi":
            p1[n] = [round(1.21 + off, 6)]
            p2[n] = [round(1.42 + off, 6)]
        else:
            p1[n] = [round(0.7 + 0.13 * i + 0.21 * j + off, 6) for j in range(d["n"])]
            p2[n] = [round(1.9 - 0.17 * i + 0.09 * j + off, 6) for j in range(d["n"])]
    out.append(("P1", p1))
    out.append(("P2", p2))
    if boundary:
        for n in names:
            if ps[n]["kind"] == "alpha":
                for v in (1.0, -1.0):
                    q = {k: list(x) for k, x in p1.items()}
                    q[n] = [v]
                    out.append((f"P3[{n}={v:+.0f}]", q))
    return out


def vector(config, vals):
    v = [0.0] * config.npars
    for name, x in vals.items():
        sl = config.par_slice(name)
        assert sl.stop - sl.start == len(x), (name, sl, x)
        v[sl] = [float(t) for t in x]
    return v


def main_data(spec, kind, seed=0):
    """channel -> counts.  kind: 'int' | 'frac' | 'zero'"""
    out = {}
    for ci, c in enumerate(spec["channels"]):
        nb = H.nbins(c)
        if kind == "int":
            out[c["name"]] = [float(int(20 + 3 * ci + 2 * b + (seed % 3))) for b in range(nb)]
        elif kind == "frac":
            out[c["name"]] = [17.5 + 1.25 * b + 0.75 * ci for b in range(nb)]
        else:
            out[c["name"]] = [0.0 if b == 0 else float(9 + ci + b) for b in range(nb)]
    return out


def aux_data(spec, which=0, ps=None):
    """name -> auxiliary measurements independent of the parameters and of the nominal values."""
    ps = ps or H.paramsets(spec)
    out = {}
    for i, n in enumerate(sorted(ps)):
        d = ps[n]
        if d["constraint"] == "normal":
            nomv = d["auxdata"] if d["auxdata"] is not None else [1.0]
            out[n] = [float(x) * (1.05 + 0.01 * j) + 0.07 * (j + 1) + 0.031 * i + 0.2 * which for j, x in enumerate(nomv)]
        elif d["constraint"] == "poisson":
            out[n] = [float(x) * (1.05 + 0.01 * j) + 0.7 * (j + 1) + 0.31 * i + 2.0 * which for j, x in enumerate(d["auxdata"])]
    return out


def data_vector(config, main, aux):
    v = [None] * config.nmaindata
    for ch in config.channels:
        sl = config.channel_slices[ch]
        assert sl.stop - sl.start == len(main[ch])
        v[sl] = [float(x) for x in main[ch]]
    av = []
    for name in config.auxdata_order:
        av += [float(x) for x in aux[name]]
    return v + av
