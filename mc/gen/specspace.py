"""Spec space Sigma: skeletons + deviation menu -> pyhf JSON specs (DESIGN.md 3.1).

A case is (skeleton id, tuple of menu indices[, override index]); build() is deterministic so a
case can be re-materialised in any process and in a replay.
"""
from __future__ import annotations

import copy
import functools
import itertools


def nominal(ci, si, nb):
    return [round(10 + 7 * ci + 3 * si + 1.5 * b + 0.013 * (ci + 2 * si + 3 * b + 1), 4) for b in range(nb)]


# listing order deliberately != sorted order; distinct bin counts; a sample absent from a channel
SKEL = {
    "B1": [("c0", 2, ["sig", "bkg"])],
    "B2": [("zc", 2, ["sig", "bkg"]), ("ab", 3, ["bkg"])],
    "B3": [("m", 1, ["sig", "bkg", "alt"]), ("zc", 3, ["bkg", "sig"]), ("ab", 2, ["alt"])],
    "B4": [("zc", 2, ["sig", "bkg"]), ("ab", 2, ["sig", "bkg"])],
}
SIDX = {"sig": 0, "bkg": 1, "alt": 2}
LUMI_CFG = {"name": "lumi", "auxdata": [1.3], "sigmas": [0.1], "bounds": [[0.0, 10.0]], "inits": [1.3]}


def skeleton(name):
    chans = []
    for ci, (cn, nb, samples) in enumerate(SKEL[name]):
        ss = []
        for sn in samples:
            mods = [{"name": "mu", "type": "normfactor", "data": None}] if sn == "sig" else []
            ss.append({"name": sn, "data": nominal(ci, SIDX[sn], nb), "modifiers": mods})
        chans.append({"name": cn, "samples": ss})
    return {"channels": chans, "parameters": []}


def cells(spec):
    for ci, c in enumerate(spec["channels"]):
        for si, s in enumerate(c["samples"]):
            yield ci, si, c, s


@functools.lru_cache(maxsize=None)
def menu(skel):
    """tuple of (label, ci, si, modifier dict, parameter configs) deviations, simplest first."""
    spec = skeleton(skel)
    out = []
    for ci, si, c, s in cells(spec):
        cell = f"{c['name']}/{s['name']}"
        nom = s["data"]

        def add(label, mod, params=None, ci=ci, si=si, cell=cell):
            out.append((f"{label}@{cell}", ci, si, mod, params or []))

        add("normfactor:k1", {"name": "k1", "type": "normfactor", "data": None})
        add("lumi", {"name": "lumi", "type": "lumi", "data": None}, [LUMI_CFG])
        lohi = [(0.9, 1.1), (0.8, 1.25), (1.1, 0.95)][(ci + si) % 3]
        add("normsys:n1", {"name": "n1", "type": "normsys", "data": {"lo": lohi[0], "hi": lohi[1]}})
        add("normsys:n2", {"name": "n2", "type": "normsys", "data": {"lo": round(lohi[1] - 0.3, 4), "hi": round(lohi[0] + 0.25, 4)}})
        add("histosys:h1", {"name": "h1", "type": "histosys", "data": {
            "lo_data": [round(x * (0.9 - 0.02 * b), 4) for b, x in enumerate(nom)],
            "hi_data": [round(x * (1.15 + 0.03 * b), 4) for b, x in enumerate(nom)]}})
        add("normsys:sys", {"name": "sys", "type": "normsys", "data": {"lo": 0.93, "hi": 1.08}})
        add("histosys:sys", {"name": "sys", "type": "histosys", "data": {
            "lo_data": [round(x - 1 - 0.5 * b, 4) for b, x in enumerate(nom)],
            "hi_data": [round(x + 2 + 0.25 * b, 4) for b, x in enumerate(nom)]}})
        add("shapesys", {"name": f"ss_{c['name']}_{s['name']}", "type": "shapesys",
                         "data": [round(0.1 * x + 0.3 * b, 4) for b, x in enumerate(nom)]})
        add("shapesys0", {"name": f"ss_{c['name']}_{s['name']}", "type": "shapesys",
                          "data": [0.0 if b == 0 else round(0.2 * x, 4) for b, x in enumerate(nom)]})
        add("staterror", {"name": f"st_{c['name']}", "type": "staterror",
                          "data": [round(0.05 * x + 0.2 * b + 0.1 * si, 4) for b, x in enumerate(nom)]})
        add("shapefactor", {"name": f"sf_{c['name']}", "type": "shapefactor", "data": None})
        # an empty nominal bin (only where another, earlier-listed sample keeps the bin populated); bin-wise modifier data stay non-zero
        if si >= 1:
            add("zerobin", {"zerobin": 0})
            add("staterror0nom", {"name": f"st_{c['name']}", "type": "staterror", "zerobin": 0,
                                  "data": [round(0.05 * x + 0.2 * b + 0.1 * si, 4) for b, x in enumerate(nom)]})
        if skel == "B4":
            add("shapefactor:X", {"name": "sfX", "type": "shapefactor", "data": None})
    return tuple(out)


def build(skel, combo):
    """-> (labels, spec) or None when the combination puts one (type,name) twice on a cell."""
    m = menu(skel)
    sp = skeleton(skel)
    labels = []
    for i in combo:
        label, ci, si, mod, params = m[i]
        labels.append(label)
        smp = sp["channels"][ci]["samples"][si]
        mods = smp["modifiers"]
        mod = copy.deepcopy(mod)
        if "zerobin" in mod:
            b = mod.pop("zerobin")
            if smp["data"][b] == 0.0:
                return None
            smp["data"][b] = 0.0
            if not mod:
                continue
        if any(x["type"] == mod["type"] and x["name"] == mod["name"] for x in mods):
            return None
        mods.append(mod)
        for p in params:
            if not any(q["name"] == p["name"] for q in sp["parameters"]):
                sp["parameters"].append(copy.deepcopy(p))
    return labels, sp


def combos(skel, k, exact=False):
    n = len(menu(skel))
    for r in range(k + 1):
        if exact and r != k:
            continue
        for combo in itertools.combinations(range(n), r):
            if build(skel, combo) is not None:
                yield combo


def all_cases(k, skels=None, exact=False):
    """list of {'skel','combo'} ordered by number of deviations then skeleton."""
    out = []
    for r in range(k + 1):
        if exact and r != k:
            continue
        for sk in skels or SKEL:
            for combo in combos(sk, r, exact=True):
                out.append({"skel": sk, "combo": list(combo)})
    return out


# ----------------------------------------------------------------------------- overrides (measurement-level)
def override_menu(spec):
    """admissible per-parameter settings for the parameters present in `spec` (by modifier docs)."""
    from mc.ref import histfactory as H

    ps = H.paramsets(spec)
    out = []
    have = {p["name"]: p for p in spec.get("parameters", [])}
    for name in sorted(ps):
        d = ps[name]
        n = d["n"]
        kind = d["kind"]
        items = []
        items.append(("inits", [round(0.37 + 0.11 * j, 3) for j in range(n)] if kind == "alpha" else [round(1.17 + 0.09 * j, 3) for j in range(n)]))
        items.append(("bounds", [[-3.5, 4.25]] * n if kind == "alpha" else [[0.25 + 0.01 * j, 7.5] for j in range(n)]))
        items.append(("fixed", True))
        items.append(("fixed", False))
        if d["constraint"] == "normal":
            items.append(("auxdata", [round(0.2 + 0.05 * j, 3) for j in range(n)] if kind == "alpha" else [round(1.1 + 0.03 * j, 3) for j in range(n)]))
            if kind in ("staterror", "lumi"):
                items.append(("sigmas", [round(0.07 + 0.013 * j, 4) for j in range(n)]))
        if d["constraint"] == "poisson":
            items.append(("auxdata", [round(30.0 + 7 * j, 2) for j in range(n)]))
            items.append(("factors", [round(41.0 + 5.5 * j, 2) for j in range(n)]))
        for k, v in items:
            out.append((f"override:{name}.{k}" + (f"={v}" if k == "fixed" else ""), name, k, v))
    return out


def apply_override(spec, item):
    _, name, k, v = item
    sp = copy.deepcopy(spec)
    for p in sp["parameters"]:
        if p["name"] == name:
            p[k] = copy.deepcopy(v)
            break
    else:
        sp["parameters"].append({"name": name, k: copy.deepcopy(v)})
    return sp


def workspace(spec, obs=None, poi="mu", measurements=1):
    """wrap a model spec into a workspace document."""
    chans = spec["channels"]
    observations = []
    for ci, c in enumerate(chans):
        nb = len(c["samples"][0]["data"])
        if obs is None:
            d = [float(int(18 + 4 * ci + 3 * b)) for b in range(nb)]
        else:
            d = list(obs[c["name"]])
        observations.append({"name": c["name"], "data": d})
    meas = []
    for i in range(measurements):
        meas.append({"name": f"meas{i}" if i else "meas", "config": {"poi": poi, "parameters": copy.deepcopy(spec.get("parameters", []))}})
    return {"channels": copy.deepcopy(chans), "observations": observations, "measurements": meas, "version": "1.0.0"}
