"""C18 — export to HistFactory XML+ROOT and re-import preserves the statistical model (DESIGN.md 4/C18)."""
from __future__ import annotations

import copy
import json
import os
import re
import shutil
import tempfile
import time
from pathlib import Path

import numpy as np

from mc.checks import common as C
from mc.core.run import digest
from mc.gen import lattices as L
from mc.gen import specspace as S
from mc.ref import histfactory as H

ID = "C18"
LEVEL = "model_checking"
TECHNIQUE = ("TLC state graph of an export/import reference model (directories x workspaces), every transition replayed on real writexml/readxml in real directories; "
             "bounded exhaustive content enumeration (spec space x lumi/fixed/normfactor settings) with a by-name likelihood oracle")
PRELOAD = None
LEVEL_TEXT = ("Histories: TLC enumerates all export/import histories over 2 directories and 3 workspaces up to depth 4 (6 thorough); every transition of the state graph "
              "is replayed on the real writexml.writexml / readxml.parse in real temporary directories and the parsed workspace must be the one the model says is on "
              "disk (nothing from an earlier import may be served). Content: every exportable workspace with <=k deviations and a menu of lumi / fixed-parameter / "
              "normfactor / measurement settings is exported and re-imported; structure, observations, POI, constant flags and the likelihood by name at two points "
              "with independent auxiliary data must survive; a second cycle must be a fixed point.")
LEVEL_NOTE = ("trusted: uproot file I/O, TLC; the TLA+ model is a reference model (assurance comes from replaying every transition); file timestamps are assumed to "
              "distinguish rewrites (the harness waits 15 ms between writes to one path)")


def mapname(n):
    return "staterror_" + n[3:] if n.startswith("st_") else n


def export_import(ws, d, clear=False):
    from pyhf import readxml, writexml

    d = Path(d)
    (d / "config").mkdir(parents=True, exist_ok=True)
    (d / "data").mkdir(exist_ok=True)
    xml = writexml.writexml(ws, d / "config", d / "data", "FitConfig")
    (d / "FitConfig.xml").write_bytes(xml)
    if clear:
        readxml.clear_filecache()
    return readxml.parse(d / "FitConfig.xml", Path("."))


def variants(spec, which):
    """workspace documents for an exportable spec: settings menu (lumi central value/uncertainty, fixed scalars, normfactor init/bounds, 2 measurements, float observations)."""
    names = {m["name"]: m["type"] for c in spec["channels"] for s in c["samples"] for m in s["modifiers"]}
    out = []
    base = S.workspace(spec, measurements=1)
    base["measurements"][0]["config"]["parameters"] = [p for p in base["measurements"][0]["config"]["parameters"] if p["name"] != "lumi"]
    has_lumi = "lumi" in names

    def lumi(l0, sg):
        return {"name": "lumi", "auxdata": [l0], "sigmas": [sg], "bounds": [[l0 - 5 * sg, l0 + 5 * sg]], "inits": [l0]}

    w = copy.deepcopy(base)
    if has_lumi:
        w["measurements"][0]["config"]["parameters"].append(lumi(1.0, 0.02))
    out.append(("plain", w))
    if which == "all":
        if has_lumi:
            for l0, sg in ((0.5, 0.1), (2.0, 0.1), (2.0, 0.02)):
                w = copy.deepcopy(base)
                w["measurements"][0]["config"]["parameters"].append(lumi(l0, sg))
                out.append((f"lumi{l0}/{sg}", w))
        if has_lumi:
            w = copy.deepcopy(base)
            lp = lumi(2.0, 0.1)
            lp["inits"] = [2.3]  # a starting value different from the central value of the constraint
            w["measurements"][0]["config"]["parameters"].append(lp)
            out.append(("lumi2.0/0.1,init2.3", w))
        # a template with a negative yield in one bin (e.g. interference) carrying an MC-statistical uncertainty there
        for c in base["channels"]:
            neg = next((s_ for s_ in c["samples"][1:] if any(m_["type"] == "staterror" for m_ in s_["modifiers"])), None)
            if neg is not None and all(sum(x["data"][b] for x in c["samples"]) - neg["data"][b] > 3.0 for b in range(len(neg["data"]))):
                w = copy.deepcopy(out[0][1])
                for c2 in w["channels"]:
                    for s2 in c2["samples"]:
                        if c2["name"] == c["name"] and s2["name"] == neg["name"]:
                            s2["data"][0] = -2.0
                            for m2_ in s2["modifiers"]:
                                if m2_["type"] == "histosys":
                                    m2_["data"] = {k: [v[0] - s2["data"][0] * 0 - (neg["data"][0] + 2.0)] + v[1:] for k, v in m2_["data"].items()}
                out.append(("negative_bin", w))
                break
        if len(base["channels"]) >= 2:
            # one channel name contained in another (SR / SR_tight), the shorter one's observation listed first
            w = copy.deepcopy(out[0][1])
            a, b = w["channels"][0]["name"], w["channels"][1]["name"]
            ren = {a: "SR_tight", b: "SR"}
            for c in w["channels"]:
                c["name"] = ren.get(c["name"], c["name"])
                for s2 in c["samples"]:
                    for m2_ in s2["modifiers"]:
                        for old_, new_ in ren.items():
                            if m2_["name"].endswith("_" + old_):
                                m2_["name"] = m2_["name"][: -len(old_)] + new_
            for o in w["observations"]:
                o["name"] = ren.get(o["name"], o["name"])
            w["observations"].sort(key=lambda o: len(o["name"]))
            out.append(("nested_channel_names", w))
        w = copy.deepcopy(out[0][1])
        w["measurements"][0]["config"]["parameters"].append({"name": "mu", "inits": [1.5], "bounds": [[0.0, 7.0]]})
        scal = [n for n, t in names.items() if t in ("normsys", "histosys", "normfactor") and n != "mu"]
        for n in scal[:1]:
            w["measurements"][0]["config"]["parameters"].append({"name": n, "fixed": True})
        if has_lumi:
            next(p for p in w["measurements"][0]["config"]["parameters"] if p["name"] == "lumi")["fixed"] = True
        w["observations"] = [{"name": o["name"], "data": [x + 0.5 for x in o["data"]]} for o in w["observations"]]
        m2 = copy.deepcopy(w["measurements"][0])
        m2["name"] = "second"
        # normfactor init/bounds live in the channel XML: they must agree between measurements to be expressible; constant flags are per measurement
        m2["config"]["parameters"] = [dict(p, fixed=False) if p["name"] == "lumi" else p for p in m2["config"]["parameters"] if p["name"] in ("lumi", "mu")]
        w["measurements"].append(m2)
        out.append(("settings", w))
    return out


def plan(tier, seed):
    cases = []
    depth = 4 if tier == "quick" else 6
    cases.append({"kind": "history", "depth": depth, "shards": 16})
    k = 1 if tier == "quick" else 2
    for r in range(k + 1):
        for c in S.all_cases(r, exact=True):
            cases.append({"kind": "content", "skel": c["skel"], "combo": c["combo"], "which": "all" if r <= 1 else "plain", "seed": seed})
    # expand the history case into shards (each shard runs TLC itself: 1 s)
    hist = [dict(cases[0], shard=i) for i in range(16)]
    return dict(
        cases=hist + cases[1:], chunk=4,
        rule="history case = shard i/16 of the transitions of the TLC state graph of XmlCache.tla (2 directories x 3 workspaces, depth d); each transition = replay of the "
             "BFS-tree path to its source state + the edge on real files; content case = (spec with <=k deviations) x settings variants; non-trivial: history shard replays "
             "imports after a rewrite; content spec has a constrained parameter; distinct = distinct case",
        alphabet={"dirs": ["dA", "dB"], "workspaces": ["W1", "W2", "W3"], "settings": ["plain", "lumi 0.5/0.1", "lumi 2.0/0.1", "lumi 2.0/0.02", "settings (fixed, normfactor init/bounds, 2 measurements, float observations)"]},
        bound={"history_depth": depth, "content_deviations": k},
        trusted_base=["TLC 1.8", "uproot"],
    )


def eval_case(case):
    C.set_backend("numpy")
    return history(case) if case["kind"] == "history" else content(case)


def hist_workspaces():
    """three workspaces with the same structure (same file and histogram names) but different content, so a stale read is visible."""
    out = {}
    for i, name in enumerate(("W1", "W2", "W3")):
        m = S.menu("B2")
        combo = tuple(sorted(next(j for j, it in enumerate(m) if it[0] == lab) for lab in ("histosys:h1@zc/bkg", "staterror@ab/bkg", "normsys:n1@zc/sig")))
        _, spec = S.build("B2", combo)
        for c in spec["channels"]:
            for s in c["samples"]:
                s["data"] = [round(x * (1 + 0.1 * i) + i, 4) for x in s["data"]]
                for mm in s["modifiers"]:
                    if mm["type"] == "histosys":
                        mm["data"] = {k: [round(x * (1 + 0.1 * i) + i, 4) for x in v] for k, v in mm["data"].items()}
                    if mm["type"] == "staterror":
                        mm["data"] = [round(x * (1 + 0.2 * i), 4) for x in mm["data"]]
                    if mm["type"] == "normsys":
                        mm["data"] = {"lo": round(0.9 - 0.02 * i, 4), "hi": round(1.1 + 0.03 * i, 4)}
        w = S.workspace(spec)
        w["observations"] = [{"name": o["name"], "data": [x + 3 * i for x in o["data"]]} for o in w["observations"]]
        out[name] = w
    return out


def equivalent(ws, back, seed=0, issues=None, ctx=None, key="C18:content"):
    """structure + by-name likelihood equality between an original workspace and a re-imported one. Returns number of comparisons."""
    import pyhf

    n = 0

    def bad(k, what):
        issues.append(C.issue(f"{key}:{k}", what, **(ctx or {})))

    oc, bc = {c["name"]: c for c in ws["channels"]}, {c["name"]: c for c in back["channels"]}
    n += 1
    if sorted(oc) != sorted(bc):
        bad("channels", f"channels {sorted(bc)} != {sorted(oc)}")
        return n
    for cn in oc:
        os_, bs = {s["name"]: s for s in oc[cn]["samples"]}, {s["name"]: s for s in bc[cn]["samples"]}
        n += 1
        if sorted(os_) != sorted(bs):
            bad("samples", f"samples of {cn}: {sorted(bs)} != {sorted(os_)}")
            return n
        for sn in os_:
            n += 1
            if not np.allclose(os_[sn]["data"], bs[sn]["data"], rtol=1e-12, atol=0):
                bad("nominal", f"nominal yields of {cn}/{sn}: {bs[sn]['data']} != {os_[sn]['data']}")
            om = sorted((mapname(m["name"]), m["type"]) for m in os_[sn]["modifiers"])
            bm = sorted((m["name"], m["type"]) for m in bs[sn]["modifiers"])
            if om != bm:
                bad("modifiers", f"modifiers of {cn}/{sn}: {bm} != {om}")
                continue
            # modifier data survive the absolute <-> relative conversions (bins with a zero nominal cannot carry a relative uncertainty: skipped)
            bmods = {(m["name"], m["type"]): m for m in bs[sn]["modifiers"]}
            nomv = os_[sn]["data"]
            for m in os_[sn]["modifiers"]:
                b_ = bmods[(mapname(m["name"]), m["type"])]
                n += 1
                if m["type"] == "normsys":
                    ok = np.allclose([m["data"]["lo"], m["data"]["hi"]], [b_["data"]["lo"], b_["data"]["hi"]], rtol=1e-12)
                elif m["type"] == "histosys":
                    ok = all(np.allclose(m["data"][k], b_["data"][k], rtol=1e-12, atol=1e-12) for k in ("lo_data", "hi_data"))
                elif m["type"] in ("shapesys", "staterror"):
                    keep = [i for i, x in enumerate(nomv) if x != 0]
                    ok = len(m["data"]) == len(b_["data"]) and np.allclose([m["data"][i] for i in keep], [b_["data"][i] for i in keep], rtol=1e-9, atol=1e-12)
                else:
                    ok = True
                if not ok:
                    bad(f"modifier_data:{m['type']}", f"data of {m['type']} {m['name']} on {cn}/{sn}: {b_['data']} after the round trip, {m['data']} before")
    oo, bo = {o["name"]: o["data"] for o in ws["observations"]}, {o["name"]: o["data"] for o in back["observations"]}
    n += 1
    if sorted(oo) != sorted(bo) or any(not np.allclose(oo[k], bo[k], rtol=1e-12, atol=0) for k in oo):
        bad("observations", f"observations {bo} != {oo}")
    om, bm = {m["name"]: m for m in ws["measurements"]}, {m["name"]: m for m in back["measurements"]}
    n += 1
    if sorted(om) != sorted(bm):
        bad("measurements", f"measurements {sorted(bm)} != {sorted(om)}")
        return n
    for mn in om:
        n += 2
        if om[mn]["config"]["poi"] != bm[mn]["config"]["poi"]:
            bad("poi", f"POI of {mn}: {bm[mn]['config']['poi']} != {om[mn]['config']['poi']}")
        try:
            m0 = pyhf.Workspace(copy.deepcopy(ws)).model(measurement_name=mn)
            m1 = pyhf.Workspace(copy.deepcopy(back)).model(measurement_name=mn)
        except Exception as e:
            bad(f"model:{type(e).__name__}", f"model of measurement {mn} cannot be built after the round trip: {e}"[:200])
            continue
        c0, c1 = m0.config, m1.config
        if sorted(mapname(x) for x in c0.par_order) != sorted(c1.par_order):
            bad("parameters", f"parameters {sorted(c1.par_order)} != {sorted(mapname(x) for x in c0.par_order)}")
            continue
        # constant flags, suggested init/bounds of scalar parameters, lumi settings
        for pn in c0.par_order:
            a, b = c0.param_set(pn), c1.param_set(mapname(pn))
            n += 1
            if list(a.suggested_fixed) != list(b.suggested_fixed):
                bad("constant_flag", f"{pn}: fixed {b.suggested_fixed} != {a.suggested_fixed}")
            if a.n_parameters == 1 and not a.constrained:
                if not np.allclose(a.suggested_init, b.suggested_init, rtol=1e-12) or not np.allclose(a.suggested_bounds, b.suggested_bounds, rtol=1e-12):
                    bad("normfactor_settings", f"{pn}: init/bounds {b.suggested_init}/{b.suggested_bounds} != {a.suggested_init}/{a.suggested_bounds}")
            if pn == "lumi":
                if not np.allclose(a.auxdata, b.auxdata, rtol=1e-12) or not np.allclose(a.sigmas, b.sigmas, rtol=1e-12):
                    bad("lumi", f"lumi central value/uncertainty {b.auxdata}/{b.sigmas} != {a.auxdata}/{a.sigmas}")
        # likelihood by name at two points, independent aux data
        spec0 = {"channels": ws["channels"], "parameters": om[mn]["config"]["parameters"]}
        ps = H.paramsets(spec0)
        for pl, vals in L.points(spec0, seed, ps, boundary=False)[1:3]:
            p0, p1 = [0.0] * c0.npars, [0.0] * c1.npars
            for k_, v in vals.items():
                p0[c0.par_slice(k_)] = v
                p1[c1.par_slice(mapname(k_))] = v
            main = L.main_data(spec0, "frac", 0)
            aux = L.aux_data(spec0, 1, ps)
            d0 = L.data_vector(c0, main, aux)
            d1 = L.data_vector(c1, main, {mapname(k_): v for k_, v in aux.items()})
            l0, l1 = float(m0.logpdf(p0, d0)[0]), float(m1.logpdf(p1, d1)[0])
            n += 1
            if not abs(l0 - l1) <= 1e-9 * (1 + abs(l0)):
                bad("likelihood", f"logpdf at {pl} of measurement {mn}: {l1!r} after the round trip, {l0!r} before")
                break
    return n


def history(case):
    from pyhf import readxml

    from mc.core import tlc

    g = tlc.run("XmlCache", {"Dirs": '{"dA","dB"}', "Ws": '{"W1","W2","W3"}', "MaxSteps": str(case["depth"])})
    paths = tlc.bfs_paths(g)
    wss = hist_workspaces()
    issues, ncmp = [], 0
    edges = sorted(g["edges"])
    mine = [e for i, e in enumerate(edges) if i % case["shards"] == case["shard"]]
    rewrites = 0
    root = Path(tempfile.mkdtemp(prefix="vc18_"))
    try:
        for src, dst, action in mine:
            trace = paths[src] + [action]
            # fresh environment for every trace: empty directories, empty cache
            readxml.clear_filecache()
            for d in ("dA", "dB"):
                shutil.rmtree(root / d, ignore_errors=True)
            disk = {"dA": None, "dB": None}
            for step, a in enumerate(trace):
                name, args = tlc.parse_action(a)
                if name == "Export":
                    w, d = args
                    if disk[d] is not None:
                        time.sleep(0.015)
                        rewrites += 1
                    export_only(wss[w], root / d)
                    disk[d] = w
                else:
                    (d,) = args
                    from pyhf import readxml as rx

                    back = rx.parse(root / d / "FitConfig.xml", Path("."))
                    if step == len(trace) - 1:
                        # conformance: the model's post-state says last = disk[d]
                        lab = g["states"][dst]
                        last = re.search(r'last = "(\w+)"', lab).group(1)
                        assert last == disk[d], (lab, disk)
                        tmp = []
                        ncmp += equivalent(wss[last], back, issues=tmp, ctx=dict(trace=trace), key="C18:history")
                        if tmp:
                            # say which workspace was actually served
                            served = [k for k, w_ in wss.items() if not equivalent_quiet(w_, back)]
                            issues.append(C.issue("C18:history:stale_import", f"after {trace} the import of {d} returns {served or 'an unknown workspace'}, the model says {last}",
                                                  trace=trace))
    finally:
        shutil.rmtree(root, ignore_errors=True)
        readxml.clear_filecache()
    return dict(issues=issues, nontrivial=rewrites > 0, outcome=digest([case["shard"], len(mine), rewrites]), comparisons=ncmp, trans=len(mine),
                extra={"states": len(g["states"]) if case["shard"] == 0 else 0, "tlc_generated": g["generated"] if case["shard"] == 0 else 0,
                       "sample": {"trace": paths[mine[-1][0]] + [mine[-1][2]]} if mine else None})


def equivalent_quiet(ws, back):
    tmp = []
    equivalent(ws, back, issues=tmp)
    return tmp


def export_only(ws, d):
    from pyhf import writexml

    d = Path(d)
    (d / "config").mkdir(parents=True, exist_ok=True)
    (d / "data").mkdir(exist_ok=True)
    xml = writexml.writexml(ws, d / "config", d / "data", "FitConfig")
    (d / "FitConfig.xml").write_bytes(xml)


def content(case):
    from pyhf import readxml

    labels, spec = S.build(case["skel"], tuple(case["combo"]))
    ps = H.paramsets(spec)
    issues, ncmp, dig = [], 0, []
    # HistFactory XML stores MC-statistical uncertainties relative to the nominal yield: an uncertainty on an empty nominal bin is not
    # expressible, so such specs are outside the property's premise ("every workspace expressible in HistFactory XML")
    for c in spec["channels"]:
        for s_ in c["samples"]:
            for m_ in s_["modifiers"]:
                if m_["type"] == "staterror" and any(x == 0 and u != 0 for x, u in zip(s_["data"], m_["data"])):
                    return dict(issues=[], nontrivial=False, outcome="not expressible in XML: staterror on an empty nominal bin", comparisons=0)
    root = Path(tempfile.mkdtemp(prefix="vc18c_"))
    try:
        for vi, (vname, ws) in enumerate(variants(spec, case["which"])):
            ctx = dict(labels=labels, variant=vname)
            d = root / f"v{vi}"
            try:
                back = export_import(ws, d, clear=True)
            except Exception as e:
                issues.append(C.issue(f"C18:content:roundtrip:{type(e).__name__}", f"export/import raised {type(e).__name__}: {e}"[:200], **ctx))
                continue
            before = len(issues)
            ncmp += equivalent(ws, back, seed=case.get("seed", 0), issues=issues, ctx=ctx)
            # a second cycle is a fixed point
            if len(issues) == before:
                try:
                    back2 = export_import(back, root / f"v{vi}b", clear=True)
                    ncmp += 1
                    if json.dumps(back2, sort_keys=True) != json.dumps(back, sort_keys=True):
                        t = []
                        equivalent(back, back2, issues=t, ctx=ctx)
                        if t or not np.allclose(_numbers(back), _numbers(back2), rtol=1e-12):
                            issues.append(C.issue("C18:content:second_cycle", "a second export/import cycle changes the workspace", **ctx))
                except Exception as e:
                    issues.append(C.issue(f"C18:content:second_cycle:{type(e).__name__}", f"second cycle raised {e}"[:200], **ctx))
            dig.append(vname)
    finally:
        shutil.rmtree(root, ignore_errors=True)
        readxml.clear_filecache()
    return dict(issues=issues, nontrivial=any(d["constraint"] for d in ps.values()), outcome=digest([labels, dig]), comparisons=ncmp)


def _numbers(o):
    out = []

    def rec(x):
        if isinstance(x, dict):
            for k in sorted(x):
                rec(x[k])
        elif isinstance(x, list):
            for v in x:
                rec(v)
        elif isinstance(x, (int, float)) and not isinstance(x, bool):
            out.append(float(x))
    rec(o)
    return out


def finalize(results, plan, cases):
    st = sum((r.get("extra") or {}).get("states", 0) for r in results)
    tr = sum(r.get("trans", 0) for r in results)
    samples = [r["extra"]["sample"] for r in results if (r.get("extra") or {}).get("sample")][:3]
    return {"states": max(st, 1), "transitions": max(tr, 1), "traces_validated_against_impl": tr, "samples": samples or [{"trace": []}],
            "tlc_states_generated": sum((r.get("extra") or {}).get("tlc_generated", 0) for r in results)}
