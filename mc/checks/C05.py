"""C05 — maximum-likelihood fits return a feasible, honest, optimal point (DESIGN.md 4/C05)."""
from __future__ import annotations

import itertools

import numpy as np

from mc.checks import common as C
from mc.checks.C06 import models as counting_models
from mc.core.run import digest
from mc.gen import lattices as L
from mc.gen import specspace as S
from mc.ref import histfactory as H

ID = "C05"
LEVEL = "exploration"
TECHNIQUE = ("exhaustive enumeration of fit configurations (model x data lattice x fit kind x init x bounds x fixed mask x optimiser x do_stitch x do_grad x backend) "
             "against closed-form optima, a reference likelihood and a finite competitor set")
PRELOAD = None
LEVEL_TEXT = ("Every configuration of the declared finite menu is run through the real mle.fit / fixed_poi_fit. Each successful fit must be inside the bounds, hold "
              "fixed parameters bit-exactly, report an objective equal to twice_nll recomputed at the returned point and to the mpmath reference likelihood, "
              "and not be beaten beyond the optimiser tolerance by any competitor: the closed-form optimum (counting families), a feasible lattice around the "
              "returned point, the results of all other configurations for the same problem, and (thorough) an independent multi-start L-BFGS-B. On the "
              "closed-form families the fit must succeed and attain the optimum.")
LEVEL_NOTE = ("optimality is decided against a finite competitor set, not a global certificate; tolerances are the calibrated optimiser tolerances "
              "(2NLL: 2e-4 scipy, 3e-3 minuit default settings)")

TOL = {"scipy": 2e-4, "minuit": 3e-3}


def f3_specs():
    def pick(skel, *labels):
        m = S.menu(skel)
        idx = []
        for lab in labels:
            idx.append(next(i for i, it in enumerate(m) if it[0] == lab))
        return S.build(skel, tuple(sorted(idx)))[1]

    return {
        "M1": pick("B2", "normsys:n1@zc/bkg", "staterror@ab/bkg"),
        "M2": pick("B1", "histosys:h1@c0/bkg", "shapesys@c0/bkg"),
        "M3": pick("B3", "lumi@m/bkg", "normsys:sys@zc/bkg", "histosys:sys@zc/sig"),
        "M4": pick("B2", "normfactor:k1@zc/bkg", "normfactor:k1@ab/bkg"),
        "M5": pick("B1", "shapesys0@c0/bkg", "normsys:n2@c0/sig"),
        "M6": pick("B4", "shapefactor@ab/bkg", "staterror@zc/sig", "staterror@zc/bkg"),
    }


def plan(tier, seed):
    cases = []
    cm = ["poi1", "poi2", "poi3c", "onoff", "srcr", "srcr_specfixed"]
    f3 = ["M1", "M2", "M3", "M4"] if tier == "quick" else ["M1", "M2", "M3", "M4", "M5", "M6"]
    bes = ["numpy", "pytorch", "jax"] if tier == "quick" else ["numpy", "pytorch", "jax", "tensorflow"]
    for be in bes:
        for opt in ("scipy", "minuit"):
            for mn in cm + f3:
                if be in ("jax", "tensorflow") and mn in ("M4", "M5", "M6", "poi3c"):
                    continue
                if tier == "quick" and be == "jax" and mn not in ("onoff", "srcr", "M1"):
                    continue
                if tier == "quick" and be == "pytorch" and mn in f3[2:]:
                    continue
                cases.append({"model": mn, "backend": be, "optimizer": opt, "multistart": tier == "thorough" and be == "numpy", "seed": seed})
    return dict(
        cases=cases, chunk=1,
        rule="case = (model, backend, optimiser); inside: data lattice x fit kind {free, POI fixed at 0, 1/3, 1, 2.7} x init {suggested, shifted} x bounds "
             "{suggested, POI lower -5, POI upper bound below the optimum} x fixed mask {none, one nuisance fixed off-nominal} x do_stitch x do_grad; "
             "non-trivial = fits with >=1 free parameter succeeded and were compared with a competitor set; distinct = distinct case",
        alphabet={"counting_models": cm, "nuisance_models": f3, "backends": bes, "optimizers": ["scipy", "minuit"], "fixed_poi": [0, 1 / 3, 1, 2.7]},
        bound={"tol_2nll": TOL},
        trusted_base=["mc/ref/stats.py closed forms", "mc/ref/histfactory.py", "scipy L-BFGS-B (independent multi-start, thorough)"],
    )


def eval_case(case):
    import pyhf
    from pyhf.infer import mle

    mn, be, opt = case["model"], case["backend"], case["optimizer"]
    issues, ncmp, dig = [], 0, []
    tol = TOL[opt]
    specfixed = mn == "srcr_specfixed"
    if specfixed:
        mn_ = "srcr"
    counting = (mn in counting_models()) or specfixed
    if counting:
        mdl = counting_models()["srcr" if specfixed else mn]
        spec = mdl.spec()
        if specfixed:
            # the background normalisation is flagged fixed in the spec; the caller releases it with an explicit all-False mask
            spec = dict(spec, parameters=[{"name": "k", "fixed": True, "inits": [1.0]}])
    else:
        mdl = None
        spec = f3_specs()[mn]
    ps = H.paramsets(spec)
    C.set_backend(be, opt)
    tl = pyhf.tensorlib
    nfits = nsucc = 0
    try:
        m = pyhf.Model(spec, poi_name="mu")
        cfg = m.config
        pidx = cfg.poi_index
        # numpy twin for competitor evaluations (same spec, evaluated after the case on the numpy backend would switch backends; use the model itself)
        def nll_at(x, data):
            return float(np.ravel(tl.tolist(mle.twice_nll(C.tens(x), C.tens(data), m)))[0])

        def ref_nll(x, data):
            vals = {n: [float(v) for v in x[cfg.par_slice(n)]] for n in cfg.par_order}
            main = {ch: [float(v) for v in data[cfg.channel_slices[ch]]] for ch in cfg.channels}
            aux, off = {}, cfg.nmaindata
            for n in cfg.auxdata_order:
                k = ps[n]["n"]
                aux[n] = [float(v) for v in data[off:off + k]]
                off += k
            tm = []
            v = H.logpdf(spec, vals, main, aux, ps=ps, terms=tm)
            return -2 * float(v), 2 * float(sum(tm))

        # ---- data lattice
        datasets = []
        if counting:
            base = [float(x) for x in mdl.rates(0.0, 1.0)]
            # zero counts drive the free background normalisation of 'srcr' to 0 (rates not strictly positive: ill-posed) -> not in its lattice
            for f in ((0.0, 0.8, 1.0, 1.25) if mdl.kind != "srcr" else (0.6, 0.8, 1.0, 1.25)):
                datasets.append([float(int(x * f)) for x in base] + mdl.nominal_aux())
            datasets.append([float(x) for x in mdl.expected_data(0.7, 1.0)])
        else:
            for kind in ("int", "frac"):
                md = L.main_data(spec, kind, case.get("seed", 0))
                datasets.append(L.data_vector(cfg, md, {n: [float(x) for x in ps[n]["auxdata"]] for n in cfg.auxdata_order}))
            p1 = L.points(spec, 0, ps, boundary=False)[1][1]
            datasets.append([float(x) for x in np.ravel(tl.tolist(m.expected_data(C.tens(L.vector(cfg, p1)))))])
        grads = [False] if be.startswith("numpy") else [True, False]
        sugg_init, sugg_bounds, sugg_fixed = cfg.suggested_init(), [tuple(b) for b in cfg.suggested_bounds()], cfg.suggested_fixed()
        if specfixed:
            sugg_fixed = [False] * cfg.npars  # the caller's explicit mask: nothing fixed
        nuis_idx = [i for i in range(cfg.npars) if i != pidx and not sugg_fixed[i]]
        for di, data in enumerate(datasets):
            for kind in ("free", 0.0, 1.0 / 3.0, 1.0, 2.7):
                problems = {}
                bound_opts = ["suggested", "poi_low"] + (["tight"] if counting and kind == "free" else []) + (["nuis_tight"] if nuis_idx else [])
                for bopt in bound_opts:
                    bounds = list(sugg_bounds)
                    if bopt == "poi_low":
                        if counting and mdl.kind != "poi" and di == 0:
                            continue  # zero counts with a negative signal strength: rates not kept positive (ill-posed)
                        if not counting:
                            continue
                        bounds[pidx] = (-5.0, 10.0)
                    if bopt == "nuis_tight":
                        # caller-supplied nuisance bounds that are active at the optimum: a narrow window just off the suggested initial value
                        for j in nuis_idx:
                            lo_, hi_ = sugg_bounds[j]
                            c0 = sugg_init[j]
                            bounds[j] = (max(lo_, c0 + 0.002), min(hi_, c0 + 0.012))
                    if bopt == "tight":
                        muhat_ref = float(mdl.fit(data, (0, 10))[0])
                        if muhat_ref < 0.2:
                            continue
                        bounds[pidx] = (0.0, 0.5 * muhat_ref)
                    for mask in (["none"] + (["nuis"] if nuis_idx else [])):
                        fixed = list(sugg_fixed)
                        init0 = list(sugg_init)
                        if mask == "nuis":
                            j = nuis_idx[0]
                            fixed[j] = True
                            init0[j] = min(max(sugg_init[j] + 0.137, bounds[j][0]), bounds[j][1])
                        for shifted in (False, True):
                            init = list(init0)
                            if shifted:
                                for i in range(cfg.npars):
                                    if not fixed[i]:
                                        lo_, hi_ = bounds[i]
                                        init[i] = min(max(init[i] + 0.07 * (hi_ - lo_) * (1 if i % 2 == 0 else -1) * 0.5, lo_ + 1e-6), hi_ - 1e-6)
                            if kind != "free" and not (bounds[pidx][0] <= kind <= bounds[pidx][1]):
                                continue
                            init = [min(max(v, b[0]), b[1]) for v, b in zip(init, bounds)]
                            key = (bopt, mask)
                            for ds, dg in itertools.product((False, True), grads):
                                ctx = dict(model=mn, backend=be, optimizer=opt, dataset=di, kind=kind, bounds=bopt, mask=mask, shifted=shifted, do_stitch=ds, do_grad=dg)
                                nfits += 1
                                try:
                                    if kind == "free":
                                        x, fun, res = mle.fit(C.tens(data), m, init, bounds, fixed, return_fitted_val=True, return_result_obj=True, do_stitch=ds, do_grad=dg)
                                    else:
                                        x, fun, res = mle.fixed_poi_fit(kind, C.tens(data), m, init, bounds, fixed, return_fitted_val=True, return_result_obj=True, do_stitch=ds, do_grad=dg)
                                except pyhf.exceptions.FailedMinimization as e:
                                    if counting:
                                        issues.append(C.issue(f"C05:failed_on_closed_form:{opt}", f"fit failed on a closed-form model: {str(e)[:120]}", **ctx))
                                    continue
                                except Exception as e:
                                    issues.append(C.issue(f"C05:raised:{type(e).__name__}:{be}:{opt}:grad={dg}", f"fit raised {type(e).__name__}: {e}"[:200], **ctx))
                                    continue
                                nsucc += 1
                                x = np.ravel(np.asarray(tl.tolist(x), dtype=float))
                                fun = float(np.ravel(tl.tolist(fun))[0])
                                ncmp += 4
                                # (1) inside bounds
                                for i, (v, (lo_, hi_)) in enumerate(zip(x, bounds)):
                                    if not (lo_ <= v <= hi_) and not fixed[i] and not (kind != "free" and i == pidx):
                                        if not (lo_ - 1e-12 <= v <= hi_ + 1e-12):
                                            issues.append(C.issue(f"C05:bounds:{opt}", f"parameter {i} = {v!r} outside [{lo_},{hi_}]", **ctx))
                                            break
                                # (2) fixed parameters held exactly
                                for i in range(cfg.npars):
                                    want = kind if (kind != "free" and i == pidx) else (init[i] if fixed[i] else None)
                                    if want is not None and x[i] != want:
                                        issues.append(C.issue(f"C05:fixed_value:{be}:{opt}", f"fixed parameter {i} returned as {x[i]!r}, supplied {want!r}", **ctx))
                                        break
                                # (3) honest objective
                                here = nll_at(x, data)
                                if not abs(fun - here) <= 1e-10 * (1 + abs(here)):
                                    issues.append(C.issue(f"C05:objective_value:{opt}", f"returned objective {fun!r} but twice_nll at the returned point is {here!r}", **ctx))
                                if (di + (0 if kind == "free" else 1)) % 2 == 0 and ds and not shifted:
                                    r, mag = ref_nll(x, data)
                                    ncmp += 1
                                    if not abs(here - r) <= 256 * C.EPS64 * (mag + 1):
                                        issues.append(C.issue("C05:objective_reference", f"twice_nll {here!r} != reference -2logL {r!r}", **ctx))
                                # (7) minuit: zero uncertainty for fixed parameters
                                if opt == "minuit" and res.unc is not None:
                                    unc = np.ravel(np.asarray(tl.tolist(res.unc), dtype=float))
                                    for i in range(cfg.npars):
                                        if (fixed[i] or (kind != "free" and i == pidx)) and unc[i] != 0.0:
                                            issues.append(C.issue("C05:minuit:fixed_uncertainty", f"fixed parameter {i} has uncertainty {unc[i]!r}", **ctx))
                                            break
                                problems.setdefault(key, []).append((fun, x, ctx, init, bounds, fixed))
                # ---- optimality per problem (same data, kind, bounds, mask): closed form / lattice / other configurations / multi-start
                for key, runs in problems.items():
                    bopt, mask = key
                    best = min(r[0] for r in runs)
                    fun0, x0, ctx0, init, bounds, fixed = runs[0]
                    comp = [("other configuration", best)]
                    free = [i for i in range(cfg.npars) if not fixed[i] and not (kind != "free" and i == pidx)]
                    if counting and mask == "none" and bopt != "nuis_tight":
                        if kind == "free":
                            mh, g, v = mdl.fit(data, bounds[pidx])
                        else:
                            v, g = mdl.profiled(kind, data)
                        comp.append(("closed form", float(v)))
                    for fun, x, ctx, *_ in runs:
                        for i in free:
                            for d in (1e-3, 1e-2, -1e-3, -1e-2):
                                y = np.array(x)
                                y[i] = min(max(y[i] + d * (bounds[i][1] - bounds[i][0]), bounds[i][0]), bounds[i][1])
                                comp.append((f"lattice neighbour ({i},{d})", nll_at(y, data)))
                        break
                    if case.get("multistart") and free and not counting:
                        import scipy.optimize as so

                        def obj(z):
                            y = np.array(x0)
                            y[free] = z
                            v = nll_at(y, data)
                            return v if np.isfinite(v) else 1e30
                        for s_ in range(3):
                            z0 = np.array([min(max(x0[i] * (1 + 0.05 * (s_ - 1)) + 0.01 * s_, bounds[i][0]), bounds[i][1]) for i in free])
                            r_ = so.minimize(obj, z0, method="L-BFGS-B", bounds=[bounds[i] for i in free])
                            comp.append((f"multi-start {s_}", float(r_.fun)))
                    cbest = min(comp, key=lambda t: t[1])
                    for fun, x, ctx, *_ in runs:
                        ncmp += 1
                        if not fun <= cbest[1] + tol:
                            issues.append(C.issue(f"C05:optimality:{opt}" + (":optimum_on_bound" if bopt in ("tight", "nuis_tight") else ""), f"objective {fun!r} is beaten by {cbest[0]} with {cbest[1]!r} (gap {fun - cbest[1]:.3g} > tol {tol})", **ctx))
                            break
                    if counting and mask == "none" and bopt != "nuis_tight":
                        v = dict(comp)["closed form"]
                        for fun, x, ctx, *_ in runs:
                            if not abs(fun - v) <= tol:
                                issues.append(C.issue(f"C05:closed_form:{opt}" + (":optimum_on_bound" if bopt in ("tight", "nuis_tight") else ""), f"objective {fun!r}, closed-form optimum {v!r}", **ctx))
                                break
                    dig.append(round(best, 2))
    finally:
        C.reset_backend()
    return dict(issues=issues, nontrivial=nsucc > 0 and nfits > 0, outcome=digest([mn, be, opt, dig, nsucc]), comparisons=ncmp,
                extra={"fits": nfits, "successful": nsucc})


def finalize(results, plan, cases):
    return {"fits_run": sum((r.get("extra") or {}).get("fits", 0) for r in results),
            "fits_successful": sum((r.get("extra") or {}).get("successful", 0) for r in results)}
