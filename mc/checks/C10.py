"""C10 — batched evaluation equals row-by-row evaluation (DESIGN.md 4/C10)."""
from __future__ import annotations

import numpy as np
from scipy.special import gammaln

from mc.checks import common as C
from mc.core.run import digest
from mc.gen import lattices as L
from mc.gen import specspace as S
from mc.ref import histfactory as H

ID = "C10"
LEVEL = "exploration"
TECHNIQUE = "bounded exhaustive enumeration of specs x batch sizes, differential oracle (unbatched model row by row; row-independence by perturbation)"
PRELOAD = None
LEVEL_TEXT = ("Every spec with <=k deviations is built batched (sizes 1,2,3,8) and unbatched on the real code; every row of expected data, "
              "log-densities and sampled shapes is compared with the unbatched result for that row alone, and perturbing one row must leave "
              "all other rows bit-identical. Distinct rows/datasets make any batch-index slip visible.")
LEVEL_NOTE = "trusted: the unbatched model (itself decided by C01/C02); bounds: <=3 deviations numpy, fewer elsewhere; batch sizes {1,2,3,8}"

SETTINGS = [("code4", "code4p"), ("code1", "code0"), ("code4", "code2")]


def plan(tier, seed):
    bk = {"numpy": 2 if tier == "quick" else 3, "pytorch": 1 if tier == "quick" else 2, "jax": 1, "tensorflow": 1, "numpy32": 1}
    cases = []
    for r in range(4):
        for be, kb in bk.items():
            if r <= kb:
                for c in S.all_cases(r, exact=True):
                    cases.append({"skel": c["skel"], "combo": c["combo"], "backend": be, "seed": seed,
                                  "batches": [1, 2, 3, 8] if r <= 2 else [2, 3]})
    return dict(
        cases=cases, chunk=32,
        rule="spec = skeleton + <=k deviations; per spec: batch sizes x {expected_data, expected_actualdata, by-sample rates, logpdf, mainlogpdf, "
             "constraint_logpdf, sample shape} row-by-row vs the unbatched model, plus row-independence (perturb one row, others bit-equal); "
             "rows and per-row datasets pairwise distinct; non-trivial = spec has >=1 nuisance parameter; distinct = distinct (spec, backend)",
        alphabet={"batch_sizes": [1, 2, 3, 8], "interp_settings": SETTINGS, "backends": list(bk)},
        bound={"deviations_per_backend": bk, "batch8_only_up_to_k": 2},
        trusted_base=["unbatched pyhf.Model (decided by C01/C02)"],
    )


def rows_for(spec, ps, seed, n):
    pts = [v for _, v in L.points(spec, seed, ps)[1:]]
    out = []
    i = 0
    while len(out) < n:
        if i < len(pts):
            out.append(pts[i])
        else:
            base = pts[0]
            out.append({k: [x + 0.031 * (i + 1) * (1 if j % 2 == 0 else -1) for j, x in enumerate(v)] for k, v in base.items()})
        i += 1
    return out


def eval_case(case):
    import pyhf

    be = case["backend"]
    eps = C.eps_of(be)
    labels, spec = S.build(case["skel"], tuple(case["combo"]))
    ps = H.paramsets(spec)
    issues, ncmp, dig = [], 0, []
    has_interp = any(d["kind"] == "alpha" for d in ps.values())
    tl = C.set_backend(be)
    try:
        variants = [(cn, ch_, {}) for cn, ch_ in (SETTINGS if (has_interp and len(case["combo"]) <= 1) else SETTINGS[:1])]
        if len(case["combo"]) <= 1:
            variants.append(("code4", "code4p", {"clip_sample_data": 14.0, "clip_bin_data": 40.0}))
        for cn, ch_, clipkw in variants:
            ms = {"normsys": {"interpcode": cn}, "histosys": {"interpcode": ch_}}
            m0 = pyhf.Model(spec, poi_name="mu", modifier_settings=ms, **clipkw)
            cfg = m0.config
            for B in case["batches"]:
                ctx = dict(labels=labels, backend=be, batch=B, interp=[cn, ch_], clip=clipkw)
                try:
                    mb = pyhf.Model(spec, poi_name="mu", modifier_settings=ms, batch_size=B, **clipkw)
                except Exception as e:
                    issues.append(C.issue(f"C10:build:{type(e).__name__}", f"batched model refused: {e}"[:300], **ctx))
                    continue
                rows = rows_for(spec, ps, case.get("seed", 0), B)
                P = np.array([L.vector(cfg, r) for r in rows])
                D = []
                for i in range(B):
                    main = L.main_data(spec, ("int", "frac", "zero")[i % 3], i)
                    main = {k: [x + (i // 3) for x in v] for k, v in main.items()}
                    D.append(L.data_vector(cfg, main, L.aux_data(spec, i % 2, ps)))
                D = np.array(D)
                Pt, Dt = C.tens(P), C.tens(D)
                nm = cfg.nmaindata

                def batched():
                    return dict(
                        expected_data=C.tolist(mb.expected_data(Pt)),
                        expected_actualdata=C.tolist(mb.expected_actualdata(Pt)),
                        bysample=C.tolist(mb.main_model.expected_data(Pt, return_by_sample=True)),
                        logpdf=C.tolist(mb.logpdf(Pt, Dt)),
                        mainlogpdf=C.tolist(mb.mainlogpdf(Dt[:, :nm], Pt)),
                        constraint_logpdf=C.tolist(mb.constraint_logpdf(Dt[:, nm:], Pt)) if cfg.auxdata_order else np.zeros(B),
                    )
                try:
                    got = batched()
                except Exception as e:
                    issues.append(C.issue(f"C10:eval:{type(e).__name__}", f"batched evaluation raised {e}"[:300], **ctx))
                    continue
                shapes = dict(expected_data=(B, nm + len(cfg.auxdata)), expected_actualdata=(B, nm), bysample=(B, len(cfg.samples), nm),
                              logpdf=(B,), mainlogpdf=(B,), constraint_logpdf=(B,))
                bad = False
                for k, shp in shapes.items():
                    ncmp += 1
                    if got[k].shape != shp:
                        issues.append(C.issue(f"C10:shape:{k}", f"{k} has shape {got[k].shape}, expected {shp} (batch axis leading)", **ctx))
                        bad = True
                if bad:
                    continue
                for i in range(B):
                    pi, di = C.tens(P[i]), C.tens(D[i])
                    ref = dict(
                        expected_data=C.tolist(m0.expected_data(pi)),
                        expected_actualdata=C.tolist(m0.expected_actualdata(pi)),
                        bysample=C.tolist(m0.main_model.expected_data(pi, return_by_sample=True)),
                        logpdf=C.tolist(m0.logpdf(pi, di))[0],
                        mainlogpdf=C.tolist(m0.mainlogpdf(di[:nm], pi)),
                        constraint_logpdf=C.tolist(m0.constraint_logpdf(di[nm:], pi)) if cfg.auxdata_order else 0.0,
                    )
                    e = np.maximum(ref["expected_data"], 1e-300)
                    mag = float(np.sum(np.abs(D[i] * np.log(e)) + e + gammaln(D[i] + 1))) + float(len(e))
                    for k in shapes:
                        ncmp += 1
                        g, r = np.asarray(got[k][i], dtype=float), np.asarray(ref[k], dtype=float)
                        if k.endswith("logpdf"):
                            ok = abs(float(g) - float(r)) <= 16 * eps * mag
                        else:
                            ok = g.shape == r.shape and np.all(np.abs(g - r) <= 16 * eps * (np.abs(r) + 1e-300))
                        if not ok:
                            issues.append(C.issue(f"C10:row:{k}", f"row {i} of batched {k} = {np.ravel(g)[:4].tolist()} but unbatched gives "
                                                  f"{np.ravel(r)[:4].tolist()}", **dict(ctx, row=i)))
                            break
                    dig.append(round(float(ref["logpdf"]), 5))
                # row independence: perturb row j only
                if B > 1:
                    j = B - 1
                    P2, D2 = P.copy(), D.copy()
                    P2[j] = P2[j] * 1.07 + 0.013
                    D2[j] = D2[j] + 1.0
                    Pt, Dt = C.tens(P2), C.tens(D2)
                    got2 = batched()
                    for k in shapes:
                        for i in range(B - 1):
                            ncmp += 1
                            if not np.array_equal(got2[k][i], got[k][i]):
                                issues.append(C.issue(f"C10:independence:{k}", f"changing row {j} changed row {i} of {k}", **ctx))
                                break
                    Pt, Dt = C.tens(P), C.tens(D)
                # sampled shape
                for shp in ((), (3,)):
                    ncmp += 1
                    sm = tl.shape(mb.make_pdf(Pt).sample(shp))
                    if tuple(sm) != tuple(shp) + (B, nm + len(cfg.auxdata)):
                        issues.append(C.issue("C10:sample_shape", f"sample{shp} has shape {tuple(sm)}, expected {tuple(shp) + (B, nm + len(cfg.auxdata))}", **ctx))
            for shp in ((), (3,)):
                ncmp += 1
                sm = tl.shape(m0.make_pdf(C.tens(L.vector(cfg, rows_for(spec, ps, 0, 1)[0]))).sample(shp))
                if tuple(sm) != tuple(shp) + (cfg.nmaindata + len(cfg.auxdata),):
                    issues.append(C.issue("C10:sample_shape:unbatched", f"unbatched sample{shp} has shape {tuple(sm)}", labels=labels, backend=be))
    finally:
        C.reset_backend()
    return dict(issues=issues, nontrivial=len(ps) > 1, outcome=digest(dig), comparisons=ncmp)
