"""C07 — asymptotic p-values follow arXiv:1007.1727 (DESIGN.md 4/C07).

The real hypotest/AsymptoticCalculator run with a scripted optimiser that prescribes (q, q_A)."""
from __future__ import annotations

import mpmath as mp
import numpy as np

from mc.checks import common as C
from mc.core import seams
from mc.core.run import digest

ID = "C07"
LEVEL = "exploration"
TECHNIQUE = "exhaustive (q, q_A) lattice through the unmodified hypotest with scripted fit answers (environment enumeration) against mpmath"
PRELOAD = None
LEVEL_TEXT = ("The optimiser is an environment the harness owns (pyhf's custom-optimiser extension point): it answers the five fits of a "
              "hypothesis test so that the observed and Asimov statistics take every value of a (q, q_A) lattice (q=0, tiny q_A, q=q_A and its "
              "floating-point neighbours, the qtilde q>q_A region up to 37 sigma). The unmodified hypotest must then return the "
              "arXiv:1007.1727 values computed in mpmath, for {q, qtilde, q0} x {normal, clipped_normal} on all 8 backend/precision pairs.")
LEVEL_NOTE = "trusted: mpmath Phi; the scripted optimiser only replaces fit answers, all statistics/p-value code is pyhf's; (q,q_A) between lattice points not covered"

mp.mp.dps = 50
QA = [1e-8, 1e-3, 0.5, 1.0, 4.0, 9.0, 25.0, 100.0, 400.0, 1300.0]
Q = [0.0, 1e-12, 1e-4, 0.5, 1.0, 2.71, 4.0, 9.0, 25.0, 100.0, 400.0, 1000.0]
NS = [2, 1, 0, -1, -2]


def Phi(x):
    return mp.ncdf(x)


def plan(tier, seed):
    backends = ["numpy", "numpy32", "pytorch", "pytorch32", "jax", "jax32", "tensorflow", "tensorflow32"]
    cases = []
    for be in backends:
        for ts in ("qtilde", "q", "q0"):
            for dist in ("normal", "clipped_normal"):
                for qa in QA:
                    cases.append({"backend": be, "test_stat": ts, "dist": dist, "qA": qa, "dense": tier == "thorough"})
        cases.append({"backend": be, "objects": True})
        if not be.endswith("32"):
            for ts in ("qtilde", "q", "q0"):
                cases.append({"backend": be, "reuse": True, "test_stat": ts})
    return dict(
        cases=cases, chunk=6,
        rule="one case = (backend/precision, test statistic, base distribution, q_A) x every q of the lattice (plus pred/at/succ of q_A; thorough: 40 more "
             "q around the qtilde seam) restricted to Phi arguments <= 37 sigma (12 at 32b); each is one real hypotest call with all return flags; "
             "'objects' cases exercise AsymptoticTestStatDistribution directly; 'reuse' cases call one AsymptoticCalculator instance for every sequence (length <=3, repetition allowed) of three (mu, q, q_A) points and compare each call with the formulae (a calculator must not remember an earlier POI value); non-trivial = q_A-dependent p-values observed; distinct = distinct case",
        alphabet={"qA": QA, "q": Q, "test_stats": ["qtilde", "q", "q0"], "dists": ["normal", "clipped_normal"], "nsigma": NS, "backends": backends},
        bound={"max_sigma_64b": 37, "max_sigma_32b": 12},
        trusted_base=["mpmath ncdf (50 digits)", "mc/core/seams.ScriptedOptimizer"],
    )


def reference(ts, dist, q, qa):
    sq, sa = mp.sqrt(q), mp.sqrt(qa)
    if ts == "qtilde" and q > qa:
        zsb, zb = (q + qa) / (2 * sa), (q - qa) / (2 * sa)
    else:
        zsb, zb = sq, sq - sa
    clsb, clb = Phi(-zsb), Phi(-zb)
    exp = []
    for n in NS:
        ne = max(mp.mpf(n), -sa) if dist == "clipped_normal" else mp.mpf(n)
        exp.append((Phi(-ne - sa), Phi(-ne), ne))
    return clsb, clb, zsb, zb, exp


def eval_case(case):
    import pyhf
    from pyhf.infer import calculators

    be = case["backend"]
    dtype = np.float32 if be.endswith("32") else np.float64
    eps = C.eps_of(be)
    zmax = 12.0 if be.endswith("32") else 37.0
    tiny = float(np.finfo(dtype).tiny)
    K = 64
    issues, ncmp, dig = [], 0, []
    if case.get("objects"):
        tl = C.set_backend(be)
        try:
            for shift in (0.0, -0.7, -3.0, -20.0):
                for cutoff in (float("-inf"), shift):
                    d = calculators.AsymptoticTestStatDistribution(tl.astensor(np.asarray(shift, dtype=dtype)), cutoff)
                    for v in (-3.0, -0.7, 0.0, 0.3, 2.0, 5.0, 11.0):
                        if v < cutoff:
                            continue
                        vv = tl.astensor(np.asarray(v, dtype=dtype))
                        p = float(np.asarray(tl.tolist(d.pvalue(vv))))
                        c = float(np.asarray(tl.tolist(d.cdf(vv))))
                        rp, rc = Phi(-(mp.mpf(v) - shift)), Phi(mp.mpf(v) - shift)
                        ncmp += 2
                        z = abs(v - shift)
                        if not abs(p - float(rp)) <= K * eps * (1 + z * z) * float(rp) + tiny:
                            issues.append(C.issue("C07:dist.pvalue", f"pvalue({v}|shift {shift}) = {p!r} expected {float(rp)!r}", backend=be))
                        if not abs(c - float(rc)) <= K * eps * (1 + z * z) * float(rc) + tiny:
                            issues.append(C.issue("C07:dist.cdf", f"cdf({v}|shift {shift}) = {c!r} expected {float(rc)!r}", backend=be))
                    for n in NS:
                        ev = float(np.asarray(tl.tolist(d.expected_value(n))))
                        ncmp += 1
                        ref = max(shift + n, cutoff)
                        if not abs(ev - ref) <= 4 * eps * (abs(ref) + 1):
                            issues.append(C.issue("C07:dist.expected_value", f"expected_value({n}) = {ev!r} expected {ref!r} (shift {shift}, cutoff {cutoff})", backend=be))
                    dig.append(round(p, 9))
        finally:
            C.reset_backend()
        return dict(issues=issues, nontrivial=True, outcome=digest(dig), comparisons=ncmp)

    if case.get("reuse"):
        return reuse(case)
    ts, dist = case["test_stat"], case["dist"]
    qa = float(dtype(case["qA"]))
    qs = [float(dtype(x)) for x in Q] + [float(np.nextafter(dtype(qa), dtype(0))), qa, float(np.nextafter(dtype(qa), dtype(1e9)))]
    if case.get("dense"):
        qs += [float(dtype(qa * (1 + s * 2.0 ** -e))) for e in range(1, 41, 2) for s in (1, -1)]
    qs = sorted(set(qs))
    mu_test = 1.0
    state = {}

    def answer(kind):
        fixed = kind["fixed_poi"]
        if kind["data"] == "obs":
            if fixed is None:
                return [0.3, 0.0], 0.0
            if ts == "q0":
                return [fixed, 0.1], (state["q"] if fixed == 0.0 else 123.0)
            return [fixed, 0.1], (state["q"] if fixed == mu_test else 0.25)  # the fixed fit at asimov_mu=0 generates the Asimov data
        if fixed is None:
            return [1.0 if ts == "q0" else 0.0, 0.0], 0.0
        return [fixed, 0.2], state["qA"]

    opt = seams.ScriptedOptimizer(answer)
    pyhf.set_backend(C.BACKENDS[be][0], opt, precision=C.BACKENDS[be][1])
    tl = pyhf.tensorlib
    nontrivial = False
    try:
        for q in qs:
            clsb_r, clb_r, zsb, zb, exp_r = reference(ts, dist, mp.mpf(q), mp.mpf(qa))
            if max(abs(zsb), abs(zb)) > zmax or any(abs(n) + mp.sqrt(qa) > zmax for n in NS):
                continue
            state["q"], state["qA"] = q, qa
            opt.calls.clear()
            pdf = seams.FakePdf(npars=2, poi_bounds=(-5, 10) if ts == "q" else (0, 10))
            ctx = dict(backend=be, test_stat=ts, dist=dist, q=q, qA=qa)
            try:
                res = pyhf.infer.hypotest(mu_test, [1.0], pdf, test_stat=ts, calc_base_dist=dist, return_tail_probs=True, return_expected=True,
                                          return_expected_set=True)
            except Exception as e:
                issues.append(C.issue(f"C07:hypotest:{type(e).__name__}", f"hypotest raised {e}"[:200], **ctx))
                continue
            f = lambda t: float(np.asarray(tl.tolist(t)))
            main, tails, med, band = f(res[0]), [f(x) for x in res[1]], f(res[2]), [f(x) for x in res[3]]
            tol = lambda ref, z: K * eps * (1 + float(z) ** 2) * float(ref) + tiny
            if ts == "q0":
                clsb, clb = main, tails[0]
            else:
                clsb, clb = tails
            ncmp += 3
            if not abs(clsb - float(clsb_r)) <= tol(clsb_r, zsb):
                issues.append(C.issue(f"C07:CLsb:{ts}", f"CL_s+b {clsb!r} expected {float(clsb_r)!r}", **ctx))
            if not abs(clb - float(clb_r)) <= tol(clb_r, zb):
                issues.append(C.issue(f"C07:CLb:{ts}", f"CL_b {clb!r} expected {float(clb_r)!r}", **ctx))
            if ts != "q0":
                cls_r = clsb_r / clb_r
                if not abs(main - float(cls_r)) <= tol(cls_r, zsb) + tol(cls_r, zb):
                    issues.append(C.issue(f"C07:CLs:{ts}", f"CL_s {main!r} expected {float(cls_r)!r}", **ctx))
                if not (0 <= clsb <= clb * (1 + 4 * eps) <= 1 + 4 * eps and 0 <= main <= 1 + 4 * eps):
                    issues.append(C.issue(f"C07:ordering:{ts}", f"0<=CLsb<=CLb<=1, 0<=CLs<=1 violated: {clsb!r} {clb!r} {main!r}", **ctx))
            # expected band
            for i, (n, (esb, eb, ne)) in enumerate(zip(NS, exp_r)):
                ncmp += 1
                ref = esb if ts == "q0" else esb / eb
                z = abs(ne) + mp.sqrt(qa)
                if not abs(band[i] - float(ref)) <= 2 * tol(ref, z):
                    issues.append(C.issue(f"C07:expected:{ts}:{dist}", f"expected value for N={n}: {band[i]!r} expected {float(ref)!r}", **ctx))
                    break
            ncmp += 2
            if not abs(med - band[2]) == 0:
                issues.append(C.issue("C07:median", f"median expected {med!r} != band[2] {band[2]!r}", **ctx))
            if any(b2 < b1 * (1 - 8 * eps) for b1, b2 in zip(band, band[1:])):
                issues.append(C.issue(f"C07:band_order:{ts}", f"expected band not non-decreasing: {band}", **ctx))
            if abs(band[0] - band[-1]) > 1e-12:
                nontrivial = True
            dig.append(round(main, 10))
    finally:
        C.reset_backend()
    return dict(issues=issues, nontrivial=nontrivial, outcome=digest(dig), comparisons=ncmp)


def reuse(case):
    """histories on ONE calculator object: every sequence of length <=3 over three (mu, q, q_A) points; each call must give the reference values for its own point."""
    import itertools

    import pyhf
    from pyhf.infer import calculators

    be, ts = case["backend"], case["test_stat"]
    eps = C.eps_of(be)
    K = 64
    issues, ncmp, dig = [], 0, []
    pts = [(0.5, 0.5, 4.0), (1.0, 9.0, 1.0), (2.0, 2.71, 25.0)]
    state = {}

    def answer(kind):
        fixed = kind["fixed_poi"]
        if kind["data"] == "obs":
            if fixed is None:
                return [0.3, 0.0], 0.0
            want = 0.0 if ts == "q0" else state["mu"]
            return [fixed, 0.1], (state["q"] if fixed == want else 0.25)
        if fixed is None:
            return [1.0 if ts == "q0" else 0.0, 0.0], 0.0
        return [fixed, 0.2], state["qA"]

    opt = seams.ScriptedOptimizer(answer)
    pyhf.set_backend(C.BACKENDS[be][0], opt, precision=C.BACKENDS[be][1])
    tl = pyhf.tensorlib
    f = lambda t: float(np.asarray(tl.tolist(t)))
    try:
        for dist in ("normal", "clipped_normal"):
            for L_ in (1, 2, 3):
                for seq in itertools.product(range(3), repeat=L_):
                    pdf = seams.FakePdf(npars=2, poi_bounds=(-5, 10) if ts == "q" else (0, 10))
                    calc = calculators.AsymptoticCalculator([1.0], pdf, test_stat=ts, calc_base_dist=dist)
                    for step, i in enumerate(seq):
                        mu, q, qa = pts[i]
                        state.update(mu=mu, q=q, qA=qa)
                        ctx = dict(backend=be, test_stat=ts, dist=dist, sequence=[list(pts[j]) for j in seq], step=step)
                        try:
                            t = calc.teststatistic(0.0 if ts == "q0" else mu)
                            sb, b = calc.distributions(0.0 if ts == "q0" else mu)
                            clsb, clb, cls = (f(x) for x in calc.pvalues(t, sb, b))
                            esb, eb, es = calc.expected_pvalues(sb, b)
                        except Exception as e:
                            issues.append(C.issue(f"C07:reuse:{type(e).__name__}", f"calculator raised {e}"[:200], **ctx))
                            break
                        clsb_r, clb_r, zsb, zb, exp_r = reference(ts, dist, mp.mpf(q), mp.mpf(qa))
                        ncmp += 3
                        tol = lambda ref, z: K * eps * (1 + float(z) ** 2) * float(ref) + 1e-300
                        if not abs(clsb - float(clsb_r)) <= tol(clsb_r, zsb) or not abs(clb - float(clb_r)) <= tol(clb_r, zb):
                            issues.append(C.issue(f"C07:reuse:pvalues:{ts}", f"call {step + 1} on a reused calculator: CLsb/CLb {clsb!r}/{clb!r} expected {float(clsb_r)!r}/{float(clb_r)!r}", **ctx))
                            break
                        band = [f(x) for x in (esb if ts == "q0" else es)]
                        bad = False
                        for k_, (a_, bb, ne) in enumerate(exp_r):
                            ref = a_ if ts == "q0" else a_ / bb
                            if not abs(band[k_] - float(ref)) <= 2 * tol(ref, abs(ne) + mp.sqrt(qa)):
                                issues.append(C.issue(f"C07:reuse:expected:{ts}", f"call {step + 1} on a reused calculator: expected band {band} does not belong to q_A={qa}", **ctx))
                                bad = True
                                break
                        if bad:
                            break
                        dig.append(round(clsb, 9))
    finally:
        C.reset_backend()
    return dict(issues=issues, nontrivial=True, outcome=digest([be, ts, len(dig)]), comparisons=ncmp)
