"""C08 — hypothesis tests: analytic answer and stable result layout (DESIGN.md 4/C08)."""
from __future__ import annotations

import itertools

import numpy as np

from mc.checks import common as C
from mc.checks.C06 import models
from mc.core import seams
from mc.core.run import digest
from mc.ref import stats as R

ID = "C08"
LEVEL = "exploration"
TECHNIQUE = "exhaustive enumeration: closed-form counting models x data x mu x statistic x optimiser with real fits; all 16 return-flag combinations x calculators"
PRELOAD = None
LEVEL_TEXT = ("Analytic layer: every (closed-form counting model, observed-count lattice point, tested mu, statistic, optimiser, backend) runs the real "
              "hypotest and is compared with the analytic asymptotic CLs / p0 (observed, tails, five expected) from a 1-D-convex mpmath solution, "
              "including which Asimov hypothesis was fitted. Layout layer: all 16 flag combinations x {asymptotics, toybased} x {q, qtilde, q0}: "
              "arity, order, nesting and agreement with the all-flags call. Refusals: no POI, POI fixed by argument, POI fixed in the spec.")
LEVEL_NOTE = "trusted: mc/ref/stats.py; tolerance = calibrated fit tolerance (5e-5 scipy, 1e-3 minuit on CLs)"

TOL = {"scipy": 5e-5, "minuit": 5e-3}
# accuracy of a fitted 2NLL difference (optimiser tolerance, calibrated): a p-value moves by phi(0)*(sqrt(q+dq)-sqrt(q)) -- large only near q=0
DQ = {"scipy": 2e-6, "minuit": 2e-3}
MUS = [0.25, 0.5, 1.0, 2.0, 4.0]


def datasets(mdl, zero):
    base = [float(x) for x in mdl.rates(0.0, 1.0)]
    out = []
    for f in ([0.0] if zero else []) + [0.6, 0.9, 1.0, 1.1, 1.3, 1.8]:
        out.append([float(int(x * f)) for x in base])
    return out


def plan(tier, seed):
    cases = []
    mnames = ["poi1", "poi2", "poi3c", "onoff", "srcr"]  # srcr: the POI is not the first parameter
    combos = [("numpy", "scipy")] + ([("numpy", "minuit"), ("pytorch", "scipy"), ("jax", "scipy")] if tier == "thorough" else [("numpy", "minuit")])
    for mn in mnames:
        for be, opt in combos:
            if opt == "minuit" and tier == "quick" and mn not in ("poi1", "onoff"):
                continue
            for ts in ("qtilde", "q", "q0"):
                cases.append({"kind": "analytic", "model": mn, "backend": be, "optimizer": opt, "test_stat": ts})
            if mn in ("poi1", "poi2"):
                cases.append({"kind": "analytic", "model": mn, "backend": be, "optimizer": opt, "test_stat": "q0", "poi_lower": -3.0})
    for ts in ("qtilde", "q", "q0"):
        for be, opt in (combos[:2] if tier == "quick" else combos):
            cases.append({"kind": "analytic", "model": "onoff", "backend": be, "optimizer": opt, "test_stat": ts, "fix_nuisance": 1.0})
    for calc in ("asymptotics", "toybased"):
        for ts in ("qtilde", "q", "q0"):
            cases.append({"kind": "layout", "calctype": calc, "test_stat": ts, "backend": "numpy"})
    if tier == "thorough":
        for be in ("pytorch", "jax", "tensorflow"):
            for ts in ("qtilde", "q0"):
                cases.append({"kind": "layout", "calctype": "asymptotics", "test_stat": ts, "backend": be})
    cases.append({"kind": "refusals"})
    return dict(
        cases=cases, chunk=1,
        rule="analytic case = (closed-form model, backend, optimiser, statistic) x observed counts {0 (where well-posed), 0.6..1.8 x background} x mu in "
             "{0.25,0.5,1,2,4} x {normal, clipped_normal}; layout case = (calculator, statistic, backend) x all 16 return-flag combinations; refusals; "
             "non-trivial = case produced CLs values on both sides of 0.5 / all flag combinations; distinct = distinct case",
        alphabet={"models": mnames, "mu": MUS, "test_stats": ["qtilde", "q", "q0"], "flags": ["return_tail_probs", "return_expected", "return_expected_set", "return_calculator"]},
        bound={},
        trusted_base=["mc/ref/stats.py closed forms"],
    )


def eval_case(case):
    if case["kind"] == "analytic":
        return analytic(case)
    if case["kind"] == "layout":
        return layout(case)
    return refusals(case)


def fl(tl, x):
    return float(np.ravel(np.asarray(tl.tolist(x), dtype=float))[0])


def analytic(case):
    import pyhf

    mdl = models()[case["model"]]
    ts, be, opt = case["test_stat"], case["backend"], case["optimizer"]
    issues, ncmp, dig = [], 0, []
    tol = TOL[opt]
    C.set_backend(be, opt)
    tl = pyhf.tensorlib
    lo = hi = False
    try:
        m = pyhf.Model(mdl.spec(), poi_name="mu")
        pidx = m.config.poi_index
        bounds = m.config.suggested_bounds()
        if ts == "q":
            bounds[pidx] = (-5.0, 10.0)
        if case.get("poi_lower") is not None:
            bounds[pidx] = (case["poi_lower"], 10.0)
        extra = {}
        refmdl = mdl
        if case.get("fix_nuisance") is not None:
            # the caller holds the nuisance constant at 1: the likelihood ratio is that of the signal-strength-only model with the same yields
            init = m.config.suggested_init()
            fixed = m.config.suggested_fixed()
            init[1 - pidx] = case["fix_nuisance"]
            fixed[1 - pidx] = True
            extra = dict(init_pars=init, fixed_params=fixed)
            refmdl = R.Counting("poi", s=[[mdl.s]], b=[[mdl.b * case["fix_nuisance"]]])
        # zero counts: only where every bin keeps a strictly positive expectation at the optimum (not srcr: the free background normalisation goes to 0)
        for main in datasets(mdl, zero=(mdl.kind == "poi" or (ts != "q" and mdl.kind == "onoff"))):
            data = list(main) + mdl.nominal_aux()
            for mu in (MUS if ts != "q0" else [1.0]):
                for dist in ("normal", "clipped_normal"):
                    ctx = dict(model=case["model"], backend=be, optimizer=opt, test_stat=ts, data=main, mu=mu, dist=dist, fix_nuisance=case.get("fix_nuisance"))
                    ref = R.hypotest_reference(refmdl, mu, data[: refmdl.nmain] if refmdl is not mdl else data, ts, clipped=(dist == "clipped_normal"),
                                               bounds=(case["poi_lower"], 10.0) if case.get("poi_lower") is not None else None)
                    try:
                        res = pyhf.infer.hypotest(mu, C.tens(data), m, par_bounds=bounds, test_stat=ts, calc_base_dist=dist, return_tail_probs=True,
                                                  return_expected_set=True, return_calculator=True, **extra)
                    except Exception as e:
                        issues.append(C.issue(f"C08:hypotest:{type(e).__name__}:{opt}", f"hypotest raised on a closed-form model: {e}"[:200], **ctx))
                        continue
                    obs, tails, band, calc = fl(tl, res[0]), [fl(tl, x) for x in res[1]], [fl(tl, x) for x in res[2]], res[3]
                    qr, qar, dq = float(ref["q"]), float(ref["qA"]), DQ[opt]
                    tol = TOL[opt] + 0.4 * ((qr + dq) ** 0.5 - qr ** 0.5 + (qar + dq) ** 0.5 - qar ** 0.5) * (3.0 if ts != "q0" else 1.0)
                    ncmp += 3
                    if not abs(obs - float(ref["obs"])) <= tol:
                        issues.append(C.issue(f"C08:observed:{ts}", f"observed {'p0' if ts == 'q0' else 'CLs'} {obs!r}, analytic {float(ref['obs'])!r}", **ctx))
                    if len(tails) != len(ref["tails"]) or any(abs(a - float(b)) > tol for a, b in zip(tails, ref["tails"])):
                        issues.append(C.issue(f"C08:tails:{ts}", f"tail probabilities {tails}, analytic {[float(x) for x in ref['tails']]}", **ctx))
                    if len(band) != 5 or any(abs(a - float(b)) > tol for a, b in zip(band, ref["expected"])):
                        issues.append(C.issue(f"C08:expected:{ts}", f"expected band {band}, analytic {[float(x) for x in ref['expected']]}", **ctx))
                    # Asimov hypothesis: background-only (signal for discovery) conditional fit
                    fp = calc.fitted_pars
                    mu_a = 1.0 if ts == "q0" else 0.0
                    ap = np.ravel(np.asarray(tl.tolist(fp.asimov_pars), dtype=float))
                    ncmp += 3
                    if ap[pidx] != mu_a:
                        issues.append(C.issue(f"C08:asimov_poi:{ts}", f"Asimov parameters have POI {ap[pidx]!r}, expected {mu_a}", **ctx))
                    if mdl.kind != "poi":
                        g = float(mdl.profile_nuis(mu_a, data)) if case.get("fix_nuisance") is None else case["fix_nuisance"]
                        nidx = 1 - pidx
                        if not abs(ap[nidx] - g) <= 2e-3 * (1 + abs(g)):
                            issues.append(C.issue(f"C08:asimov_nuisance:{ts}", f"Asimov nuisance {ap[nidx]!r}, conditional MLE at mu={mu_a} is {g!r}", **ctx))
                    sqa = fl(tl, calc.sqrtqmuA_v)
                    if not abs(sqa ** 2 - float(ref["qA"])) <= 40 * tol * (1 + float(ref["qA"])):
                        issues.append(C.issue(f"C08:qA:{ts}", f"Asimov statistic {sqa ** 2!r}, analytic {float(ref['qA'])!r}", **ctx))
                    fx = np.ravel(np.asarray(tl.tolist(fp.fixed_poi_fit_to_data), dtype=float))[pidx]
                    fxa = np.ravel(np.asarray(tl.tolist(fp.fixed_poi_fit_to_asimov), dtype=float))[pidx]
                    want = 0.0 if ts == "q0" else mu
                    if fx != want or fxa != want:
                        issues.append(C.issue(f"C08:fitted_pars:{ts}", f"conditional fits hold POI at {fx!r}/{fxa!r}, expected {want}", **ctx))
                    fra = np.ravel(np.asarray(tl.tolist(fp.free_fit_to_asimov), dtype=float))[pidx]
                    if not abs(fra - mu_a) <= (2e-2 if opt == "scipy" else 0.1):
                        issues.append(C.issue(f"C08:free_fit_to_asimov:{ts}", f"free fit to the Asimov data gives POI {fra!r}, expected ~{mu_a}", **ctx))
                    lo |= obs < 0.5
                    hi |= obs >= 0.5
                    dig.append(round(obs, 4))
    finally:
        C.reset_backend()
    return dict(issues=issues, nontrivial=lo and hi or ts == "q0", outcome=digest(dig), comparisons=ncmp)


FLAGS = ["return_tail_probs", "return_expected", "return_expected_set", "return_calculator"]


def layout(case):
    import pyhf
    from pyhf.infer import calculators

    ts, calctype, be = case["test_stat"], case["calctype"], case["backend"]
    issues, ncmp, dig = [], 0, []
    C.set_backend(be)
    tl = pyhf.tensorlib
    try:
        m = pyhf.Model(R.Counting("poi", s=[[5.0]], b=[[20.0]]).spec(), poi_name="mu")
        data = C.tens([24.0])
        bounds = m.config.suggested_bounds()
        if ts == "q":
            bounds[0] = (-5.0, 10.0)
        kw = dict(par_bounds=bounds, test_stat=ts, calctype=calctype)
        if calctype == "toybased":
            kw["ntoys"] = 4
            kw["track_progress"] = False

        def run(flags):
            np.random.seed(1234)
            return pyhf.infer.hypotest(1.0, data, m, **kw, **flags)

        full = run({f: True for f in FLAGS})
        ntail = 1 if ts == "q0" else 2
        for bits in itertools.product([False, True], repeat=4):
            flags = dict(zip(FLAGS, bits))
            ctx = dict(test_stat=ts, calctype=calctype, backend=be, flags=flags)
            try:
                res = run(flags)
            except Exception as e:
                issues.append(C.issue(f"C08:layout:{calctype}:{type(e).__name__}", f"hypotest raised with flags {flags}: {e}"[:200], **ctx))
                continue
            ncmp += 1
            # documented order: main, [tail probs], [median], [band], [calculator]
            expected = [("scalar", full[0])]
            if flags["return_tail_probs"]:
                expected.append(("list", full[1], ntail))
            if flags["return_expected"]:
                expected.append(("scalar", full[2]))
            if flags["return_expected_set"]:
                expected.append(("list", full[3], 5))
            if flags["return_calculator"]:
                expected.append(("calc", None))
            got = list(res) if isinstance(res, tuple) else [res]
            if (len(expected) == 1) != (not isinstance(res, tuple)) or len(got) != len(expected):
                issues.append(C.issue(f"C08:layout:arity:{calctype}", f"flags {flags}: {len(got)} results ({'tuple' if isinstance(res, tuple) else 'bare'}), expected {len(expected)}", **ctx))
                continue
            for i, (g, e) in enumerate(zip(got, expected)):
                ok = True
                if e[0] == "scalar":
                    ok = np.shape(np.asarray(tl.tolist(g))) == () and fl(tl, g) == fl(tl, e[1])
                elif e[0] == "list":
                    ok = isinstance(g, (list, tuple)) and len(g) == e[2] and all(fl(tl, a) == fl(tl, b) for a, b in zip(g, e[1]))
                else:
                    ok = isinstance(g, (calculators.AsymptoticCalculator, calculators.ToyCalculator))
                if not ok:
                    issues.append(C.issue(f"C08:layout:slot:{calctype}", f"flags {flags}: result slot {i} is not the documented {e[0]} "
                                          f"(or differs from the all-flags call)", **ctx))
                    break
            dig.append(len(got))
        if not (abs(fl(tl, full[2]) - fl(tl, full[3][2])) == 0):
            issues.append(C.issue("C08:layout:median", "median expected != band[2]", test_stat=ts, calctype=calctype))
    finally:
        C.reset_backend()
    return dict(issues=issues, nontrivial=True, outcome=digest([ts, calctype, be, dig]), comparisons=ncmp)


def refusals(case):
    import pyhf

    issues, ncmp = [], 0
    C.set_backend("numpy")
    spec = R.Counting("onoff", s=6.0, b=50.0, db=7.0).spec()
    data = [52.0, (50.0 / 7.0) ** 2]
    out = []

    def expect(label, fn, exc):
        nonlocal ncmp
        ncmp += 1
        try:
            fn()
            out.append((label, "accepted"))
            issues.append(C.issue(f"C08:refusal:{label}", f"hypotest accepted a model with {label}"))
        except exc:
            out.append((label, "refused"))
        except Exception as e:
            out.append((label, type(e).__name__))
            issues.append(C.issue(f"C08:refusal:{label}:{type(e).__name__}", f"{label}: raised {type(e).__name__} instead of {exc.__name__}"))

    for ts in ("qtilde", "q0"):
        for calctype in ("asymptotics", "toybased"):
            kw = dict(test_stat=ts, calctype=calctype)
            if calctype == "toybased":
                kw.update(ntoys=2, track_progress=False)
            m_nopoi = pyhf.Model(spec)
            expect(f"no POI/{ts}/{calctype}", lambda: pyhf.infer.hypotest(1.0, data, m_nopoi, **kw), pyhf.exceptions.UnspecifiedPOI)
            m = pyhf.Model(spec, poi_name="mu")
            fixed = m.config.suggested_fixed()
            fixed[m.config.poi_index] = True
            expect(f"POI fixed by argument/{ts}/{calctype}", lambda: pyhf.infer.hypotest(1.0, data, m, fixed_params=fixed, **kw), pyhf.exceptions.InvalidModel)
            sp2 = dict(spec, parameters=[{"name": "mu", "fixed": True}])
            m2 = pyhf.Model(sp2, poi_name="mu")
            expect(f"POI fixed in the spec/{ts}/{calctype}", lambda: pyhf.infer.hypotest(1.0, data, m2, **kw), pyhf.exceptions.InvalidModel)
    # the same model with a free POI is accepted
    ncmp += 1
    m = pyhf.Model(spec, poi_name="mu")
    try:
        pyhf.infer.hypotest(1.0, data, m)
        out.append(("free POI", "accepted"))
    except Exception as e:
        issues.append(C.issue("C08:refusal:control", f"control hypotest with a free POI raised {e}"[:200]))
    return dict(issues=issues, nontrivial=True, outcome=digest(out), comparisons=ncmp)
