"""Helpers shared by the checks: backend reset, tensor conversion, tolerances."""
from __future__ import annotations

import os

import numpy as np

EPS64 = 2.220446049250313e-16
EPS32 = 1.1920929e-07

BACKENDS = {
    # label: (pyhf backend name, precision)
    "numpy": ("numpy", "64b"),
    "numpy32": ("numpy", "32b"),
    "pytorch": ("pytorch", "64b"),
    "pytorch32": ("pytorch", "32b"),
    "jax": ("jax", "64b"),
    "jax32": ("jax", "32b"),
    "tensorflow": ("tensorflow", "64b"),
    "tensorflow32": ("tensorflow", "32b"),
}


def eps_of(label):
    return EPS32 if label.endswith("32") else EPS64


def set_backend(label, optimizer=None):
    import pyhf

    name, prec = BACKENDS[label]
    if optimizer is None:
        pyhf.set_backend(name, "scipy", precision=prec)
    else:
        pyhf.set_backend(name, optimizer, precision=prec)
    return pyhf.tensorlib


def reset_backend():
    import pyhf

    pyhf.set_backend("numpy", "scipy", precision="64b")


def tens(x):
    """backend tensor from exact float64 numpy data (never a python list: see finding F10)."""
    import pyhf

    return pyhf.tensorlib.astensor(np.asarray(x, dtype=np.float64))


def tolist(x):
    import pyhf

    return np.asarray(pyhf.tensorlib.tolist(x), dtype=np.float64)


def assert_repo():
    import pyhf

    assert os.path.realpath(pyhf.__file__).startswith("/repo/src"), pyhf.__file__


def issue(key, what, **detail):
    return {"key": key, "what": what, "detail": detail}
