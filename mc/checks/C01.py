"""C01 — expected rates follow the HistFactory formula (DESIGN.md 4/C01).

Deviation-bounded exhaustive enumeration of the spec space x interpolation settings x parameter
points x clip settings x observables, every case compared by value with the by-name reference
interpreter through config.channel_slices / par_slice only.
"""
from __future__ import annotations

import itertools

import numpy as np

from mc.checks import common as C
from mc.gen import lattices as L
from mc.gen import specspace as S
from mc.ref import histfactory as H

ID = "C01"
LEVEL = "exploration"
TECHNIQUE = "bounded exhaustive enumeration (deviation lattice over spec space) against a reference interpreter"
PRELOAD = None
LEVEL_TEXT = ("Every spec of the declared finite spec space (4 skeletons, <=3 modifier attachments from an 11-12 item menu per cell) is built "
              "with the real pyhf.Model on each backend and its rates are compared by value, channel by channel and sample by sample, with "
              "an independent by-name interpreter. Bounded exhaustive enumeration is the right level: the bugs are index/mask bookkeeping "
              "bugs with small witnesses; no proof over all specs is attempted.")
LEVEL_NOTE = "trusted: mc/ref/histfactory.py (mpmath reference interpreter written from the HistFactory definition), mpmath; bounds: <=3 channels/samples/bins/deviations, CPU backends"

INTERP = [("code4", "code4p")] + [(a, b) for a in ("code1", "code4") for b in ("code0", "code2", "code4p") if (a, b) != ("code4", "code4p")]
CLIPS = [(None, None), (0.0, None), (14.0, None), (None, 40.0), (14.0, 40.0)]


def plan(tier, seed):
    cases = []
    kmain = 3
    ksett = 2 if tier == "quick" else 3
    bk = {
        "numpy": kmain,
        "numpy32": 1 if tier == "quick" else 2,
        "pytorch": 1 if tier == "quick" else 2,
        "jax": 1 if tier == "quick" else 2,
        "tensorflow": 1 if tier == "quick" else 2,
    }
    for r in range(4):
        for be, kb in bk.items():
            if r > kb:
                continue
            for c in S.all_cases(r, exact=True):
                cases.append({"skel": c["skel"], "combo": c["combo"], "backend": be, "seed": seed,
                              "settings": "all" if (r <= ksett or be != "numpy") else "lean"})
    return dict(
        cases=cases,
        chunk=64,
        rule="every spec = skeleton (B1..B4) + <=k menu deviations (11-12 modifier attachments per cell); per spec: "
             "interpolation settings x points P0,P1,P2,P3(alpha=+-1) x 5 clip settings x {expected_actualdata, expected_data, "
             "by-sample rates, untouched-sample differential, list-vs-array input}; non-trivial = at least one modifier moves a "
             "rate away from nominal at the evaluated point; distinct = distinct (spec, backend) case",
        alphabet={"skeletons": list(S.SKEL), "menu_sizes": {k: len(S.menu(k)) for k in S.SKEL}, "interp": INTERP, "clips": CLIPS,
                  "backends": list(bk)},
        bound={"deviations_per_backend": bk, "all_settings_up_to": ksett,
               "lean_above": "numpy specs with more deviations than all_settings_up_to: default interpolation, no clipping, points P1,P2, no untouched-sample differential"},
        trusted_base=["mc/ref/histfactory.py (mpmath, 40 digits)", "mpmath"],
        assumptions=["parameter points and data are fixed lattices (VERIF_SEED selects one of 8 offset tables)",
                     "inputs are handed over as float64 arrays (python-list inputs are a dedicated sub-case)"],
    )


def _cmp(tag, got, ref, mag, eps, K, issues, ctx):
    got = np.asarray(got, dtype=np.float64).ravel()
    if len(got) != len(ref):
        issues.append(C.issue(f"C01:{tag}:length", f"{tag}: {len(got)} values, reference has {len(ref)}", **ctx))
        return 1
    worst = 0.0
    for g, r, m in zip(got, ref, mag):
        tol = K * eps * max(float(m), 1e-300)
        d = abs(g - float(r))
        if not d <= tol:
            issues.append(C.issue(f"C01:{tag}", f"{tag}: got {g!r} expected {float(r)!r} (|d|={d:.3g} tol={tol:.3g})", **ctx))
            return 1
        worst = max(worst, d / tol if tol else 0)
    return 1


def eval_case(case):
    import pyhf

    be = case["backend"]
    eps = C.eps_of(be)
    K = 64
    built = S.build(case["skel"], tuple(case["combo"]))
    labels, spec = built
    ps = H.paramsets(spec)
    has_interp = any(m["type"] in ("normsys", "histosys") for c in spec["channels"] for s in c["samples"] for m in s["modifiers"])
    settings = INTERP if (case["settings"] == "all" and has_interp) else INTERP[:1]
    clips = CLIPS if case["settings"] == "all" else CLIPS[:1]
    lean = case["settings"] == "lean"
    issues = []
    ncmp = 0
    nontrivial = False
    digestv = []
    C.set_backend(be)
    try:
        pts = L.points(spec, case.get("seed", 0), ps)
        for si, (cn, ch_) in enumerate(settings):
            codes = {"normsys": cn, "histosys": ch_}
            ms = {"normsys": {"interpcode": cn}, "histosys": {"interpcode": ch_}}
            for ci, (cs, cb) in enumerate(clips if si == 0 else clips[:1]):
                ctx0 = dict(labels=labels, interp=[cn, ch_], clip=[cs, cb], backend=be)
                try:
                    m = pyhf.Model(spec, poi_name="mu", modifier_settings=ms, clip_sample_data=cs, clip_bin_data=cb)
                except Exception as e:
                    issues.append(C.issue(f"C01:build:{type(e).__name__}", f"well-formed spec refused: {e}"[:300], **ctx0))
                    continue
                cfg = m.config
                for pl, vals in (pts if (si == 0 and ci == 0 and not lean) else pts[1:3]):
                    ctx = dict(ctx0, point=pl)
                    pv = L.vector(cfg, vals)
                    pt = C.tens(pv)
                    per = H.sample_rates(spec, vals, codes, cs)
                    per_raw = H.sample_rates(spec, vals, codes, None) if cs is not None else per
                    ref, mag, nomref, leak = {}, {}, {}, {}
                    cfgsamples = cfg.samples
                    for c in spec["channels"]:
                        nb = H.nbins(c)
                        tot = [H.M(0)] * nb
                        mg = [H.M(0)] * nb
                        nm = [H.M(0)] * nb
                        for s in c["samples"]:
                            r = per[c["name"]][s["name"]]
                            tot = [a + b for a, b in zip(tot, r)]
                            mg = [a + abs(b) + abs(b2) + abs(H.M(x)) for a, b, b2, x in zip(mg, r, per_raw[c["name"]][s["name"]], s["data"])]
                            nm = [a + H.M(x) for a, x in zip(nm, s["data"])]
                        nabsent = len(cfgsamples) - len(c["samples"])
                        lk = [v + nabsent * H.M(cs) for v in tot] if (cs is not None and cs > 0 and nabsent) else None
                        if cb is not None:
                            tot = [max(v, H.M(cb)) for v in tot]
                            lk = [max(v, H.M(cb)) for v in lk] if lk else None
                        ref[c["name"]], mag[c["name"]], nomref[c["name"]] = tot, mg, nm
                        leak[c["name"]] = lk
                        if any(abs(t - n) > 1e-9 for t, n in zip(tot, nm)):
                            nontrivial = True
                    # 1. expected_actualdata, channel by channel through channel_slices
                    got = C.tolist(m.expected_actualdata(pt))
                    if got.shape != (cfg.nmaindata,):
                        issues.append(C.issue("C01:actual:shape", f"expected_actualdata shape {got.shape}", **ctx))
                        continue
                    leaked = False
                    for chn in cfg.channels:
                        if leak[chn] is not None:
                            tmp = []
                            _cmp("actual", got[cfg.channel_slices[chn]], ref[chn], mag[chn], eps, K, tmp, {})
                            if tmp:
                                tmp2 = []
                                _cmp("actual", got[cfg.channel_slices[chn]], leak[chn], mag[chn], eps, K, tmp2, {})
                                if not tmp2:
                                    leaked = True
                                    ncmp += 1
                                    issues.append(C.issue("C01:clip_sample_positive:absent_cell", "clip_sample_data>0 adds the clip value for samples "
                                                          "absent from the channel", **dict(ctx, channel=chn)))
                                    continue
                        ncmp += _cmp("actual", got[cfg.channel_slices[chn]], ref[chn], mag[chn], eps, K, issues, dict(ctx, channel=chn))
                    if leaked:
                        continue
                    digestv.append(round(float(got.sum()), 6))
                    # 2. expected_data = actual ++ expected aux (by auxdata_order)
                    full = C.tolist(m.expected_data(pt))
                    refaux = H.expected_aux(spec, vals, ps)
                    rv = [x for chn in cfg.channels for x in ref[chn]]
                    rm = [x for chn in cfg.channels for x in mag[chn]]
                    fl = np.zeros(cfg.nmaindata)
                    for chn in cfg.channels:
                        fl[cfg.channel_slices[chn]] = full[: cfg.nmaindata][cfg.channel_slices[chn]]
                    ncmp += _cmp("expected_data.main", fl, rv, rm, eps, K, issues, ctx)
                    ra = [x for n in cfg.auxdata_order for x in refaux[n]]
                    ncmp += _cmp("expected_data.aux", full[cfg.nmaindata:], ra, [abs(x) + 1 for x in ra], eps, K, issues, ctx)
                    noaux = C.tolist(m.expected_data(pt, include_auxdata=False))
                    if not np.array_equal(noaux, got):
                        issues.append(C.issue("C01:include_auxdata", "expected_data(include_auxdata=False) != expected_actualdata", **ctx))
                    # 3. by-sample rates (config.samples order), absent cells are zero
                    bys = C.tolist(m.main_model.expected_data(pt, return_by_sample=True))
                    if bys.shape != (len(cfg.samples), cfg.nmaindata):
                        issues.append(C.issue("C01:bysample:shape", f"by-sample shape {bys.shape}", **ctx))
                    else:
                        for c in spec["channels"]:
                            sl = cfg.channel_slices[c["name"]]
                            present = {s["name"] for s in c["samples"]}
                            for k_, sn in enumerate(cfg.samples):
                                if sn in present:
                                    r = per[c["name"]][sn]
                                    mg = [abs(x) + abs(y) + 1 for x, y in zip(r, per_raw[c["name"]][sn])]
                                else:
                                    r = [H.M(0 if cs is None else max(0, cs))] * (sl.stop - sl.start)
                                    mg = [1] * len(r)
                                ncmp += _cmp("bysample", bys[k_][sl], r, mg, eps, K, issues, dict(ctx, channel=c["name"], sample=sn))
                    # 4. untouched samples: perturbing one parameter leaves samples not declaring it bit-identical
                    if pl == "P1" and si == 0 and ci == 0 and bys.ndim == 2 and not lean:
                        for name in cfg.par_order:
                            pv2 = list(pv)
                            sl = cfg.par_slice(name)
                            for j in range(sl.start, sl.stop):
                                pv2[j] = pv2[j] * 1.37 + 0.211
                            bys2 = C.tolist(m.main_model.expected_data(C.tens(pv2), return_by_sample=True))
                            for c in spec["channels"]:
                                csl = cfg.channel_slices[c["name"]]
                                decl = {s["name"]: any(mm["name"] == name for mm in s["modifiers"]) for s in c["samples"]}
                                for k_, sn in enumerate(cfg.samples):
                                    if decl.get(sn):
                                        continue
                                    ncmp += 1
                                    if not np.array_equal(bys2[k_][csl], bys[k_][csl]):
                                        issues.append(C.issue("C01:untouched", f"sample {sn} in {c['name']} does not declare {name} but its rate moved", **ctx))
                    # 5. python-list input must agree with array input (64b backends)
                    if pl == "P2" and si == 0 and ci == 0 and not be.endswith("32"):
                        gl = C.tolist(m.expected_actualdata(pv))
                        ncmp += 1
                        if not np.allclose(gl, got, rtol=64 * eps, atol=0):
                            issues.append(C.issue(f"C01:listinput:{be}", "python-list parameters give different rates than a float64 array "
                                                  f"(max rel diff {float(np.max(np.abs(gl - got) / np.abs(got))):.3g})", **ctx))
        # batched or not: a batch-2 model evaluated on two distinct rows (full batch matrix: C10)
        if case["settings"] == "all" and len(case["combo"]) <= 1:
            mb = pyhf.Model(spec, poi_name="mu", batch_size=3)
            rows = [v for _, v in pts[1:3]]
            # third row: P2 with every interpolation parameter mirrored, so both extrapolation sides occur in the batch
            rows.append({n: ([-x for x in v] if ps[n]["kind"] == "alpha" else list(v)) for n, v in rows[1].items()})
            got = C.tolist(mb.expected_actualdata(C.tens([L.vector(mb.config, r) for r in rows])))
            for ri, r in enumerate(rows):
                ex = H.expected(spec, r)
                for chn in mb.config.channels:
                    ncmp += _cmp("batched_actual", got[ri][mb.config.channel_slices[chn]], ex[chn], [abs(x) + 1 for x in ex[chn]], eps, 4 * K, issues,
                                 dict(labels=labels, backend=be, row=ri, channel=chn))
    finally:
        C.reset_backend()
    return dict(issues=issues, nontrivial=nontrivial, outcome=C_digest(digestv), comparisons=ncmp)


def C_digest(v):
    from mc.core.run import digest

    return digest(v)
