"""C09 — upper limits solve CLs(mu) = level at the requested level (DESIGN.md 4/C09)."""
from __future__ import annotations

import mpmath as mp
import numpy as np

from mc.checks import common as C
from mc.checks.C06 import models
from mc.core import seams
from mc.core.run import digest
from mc.ref import stats as R

ID = "C09"
LEVEL = "exploration"
TECHNIQUE = "exhaustive enumeration of scripted CLs curves (mu_hat, sigma) x level x scan mode x forwarded options through the real upper_limit; real-fit counting models"
PRELOAD = None
LEVEL_TEXT = ("Scripted layer: the optimiser seam makes CLs(mu) an analytically known curve; the unmodified upper_limit / toms748_scan / linear_grid_scan "
              "must return the analytic roots for every level, scan mode, forwarded hypotest option and through the deprecated alias. Real layer: closed-form "
              "counting models with real fits; the returned limits are fed back into hypotest and must hit the level.")
LEVEL_NOTE = "trusted: mpmath root finding on monotone analytic curves; scripted optimiser replaces only the fit answers"

LEVELS = [0.01, 0.05, 0.1, 0.2, 0.32]
NS = [2, 1, 0, -1, -2]


def cls_ref(mu, muhat, sigma, ts="qtilde", clipped=False, which=None):
    """analytic CLs(mu) for nll(mu) = ((mu - muhat)/sigma)^2 with the POI bounded below by 0; which=None observed, else index into NS."""
    mu, muhat, sigma = mp.mpf(mu), mp.mpf(muhat), mp.mpf(sigma)
    qa = (mu / sigma) ** 2
    if which is not None:
        n = mp.mpf(NS[which])
        ne = max(n, -mp.sqrt(qa)) if clipped else n
        return R.Phi(-ne - mp.sqrt(qa)) / R.Phi(-ne)
    mh = max(muhat, mp.mpf(0))
    nll = lambda x: ((x - muhat) / sigma) ** 2
    q = mp.mpf(0) if mh > mu else max(mp.mpf(0), nll(mu) - nll(mh))
    if qa == 0:
        return mp.mpf(1)
    return R.asymptotic(ts, q, qa)[2]


def root_ref(level, muhat, sigma, ts, clipped, which):
    f = lambda x: cls_ref(x, muhat, sigma, ts, clipped, which) - level
    lo, hi = mp.mpf("1e-9"), mp.mpf(40)
    if f(lo) < 0:
        return None
    for _ in range(200):
        mid = (lo + hi) / 2
        if f(mid) > 0:
            lo = mid
        else:
            hi = mid
    return float((lo + hi) / 2)


def plan(tier, seed):
    cases = []
    backends = ["numpy", "pytorch"] if tier == "quick" else ["numpy", "pytorch", "jax", "tensorflow"]
    for be in backends:
        for r in (-1.0, 0.0, 0.5, 2.0):
            for sigma in ((0.003, 0.03, 0.3, 1.0, 2.5) if be == "numpy" else (0.03, 1.0)):
                for level in (LEVELS if be == "numpy" else [0.05, 0.2]):
                    cases.append({"kind": "scripted", "backend": be, "ratio": r, "sigma": sigma, "level": level})
    mnames = ["poi1", "poi2"] + (["poi3c", "onoff", "srcr"] if tier == "thorough" else ["onoff"])
    for mn in mnames:
        for di in range(3):
            for level in ([0.05, 0.2] if tier == "quick" else LEVELS):
                cases.append({"kind": "real", "model": mn, "dataset": di, "level": level})
    return dict(
        cases=cases, chunk=2,
        rule="scripted case = (backend, mu_hat/sigma in {-1,0,0.5,2}, sigma in {0.003,0.03,0.3,1,2.5}, level) x {automatic scan, linspace grids of 11/21/51 points} x "
             "{qtilde, q} x {normal, clipped_normal} x return_results x deprecated alias; real case = (closed-form model, dataset, level) x both scan modes; "
             "non-trivial: every case (six distinct limits); distinct = distinct case",
        alphabet={"levels": LEVELS, "ratios": [-1, 0, 0.5, 2], "sigmas": [0.003, 0.03, 0.3, 1.0, 2.5], "grids": [11, 21, 51], "models": mnames},
        bound={},
        trusted_base=["mpmath", "mc/ref/stats.py", "mc/core/seams.ScriptedOptimizer"],
    )


def eval_case(case):
    return scripted(case) if case["kind"] == "scripted" else real(case)


def scripted(case):
    import pyhf
    from pyhf.infer.intervals import upper_limits

    be, sigma, level = case["backend"], case["sigma"], case["level"]
    muhat = case["ratio"] * sigma
    issues, ncmp, dig = [], 0, []

    def answer(kind):
        mh = 0.0 if kind["data"] == "asimov" else muhat
        lo = kind["bounds"][0][0]
        nll = lambda x: ((x - mh) / sigma) ** 2
        if kind["fixed_poi"] is not None:
            return [kind["fixed_poi"], 0.0], nll(kind["fixed_poi"])
        mc_ = max(mh, lo)
        return [mc_, 0.0], nll(mc_)

    opt = seams.ScriptedOptimizer(answer)
    pyhf.set_backend(C.BACKENDS[be][0], opt, precision="64b")
    tl = pyhf.tensorlib
    f = lambda t: float(np.ravel(np.asarray(tl.tolist(t), dtype=float))[0])
    try:
        for ts in ("qtilde", "q"):
            for dist in ("normal", "clipped_normal"):
                kw = dict(test_stat=ts, calc_base_dist=dist)
                clipped = dist == "clipped_normal"
                roots = [root_ref(level, muhat, sigma, ts, clipped, None)] + [root_ref(level, muhat, sigma, ts, clipped, i) for i in range(5)]
                ctx = dict(backend=be, muhat=muhat, sigma=sigma, level=level, test_stat=ts, dist=dist)
                if any(r is None or r > 9.5 for r in roots):
                    continue  # crossing not inside the POI range (0, 10): outside the property's premise
                # ---- automatic scan (and the deprecated alias)
                for alias in (False, True):
                    pdf = seams.FakePdf(npars=2, poi_bounds=(0, 10))
                    fn = pyhf.infer.intervals.upperlimit if alias else upper_limits.upper_limit
                    try:
                        obs, exp, (pts, results) = fn([1.0], pdf, level=level, return_results=True, **kw)
                    except Exception as e:
                        issues.append(C.issue(f"C09:auto:{type(e).__name__}", f"upper_limit raised {e}"[:200], **ctx))
                        continue
                    got = [f(obs)] + [f(x) for x in exp]
                    ncmp += 6
                    for i, (g, r) in enumerate(zip(got, roots)):
                        if not abs(g - r) <= 4e-4 * r + 1e-9:
                            issues.append(C.issue("C09:auto:limit" + (":alias" if alias else ""), f"automatic scan: limit[{i}] = {g!r}, analytic root of CLs=level({level}) is {r!r}"
                                                  f" (root at level 0.05 would be {root_ref(0.05, muhat, sigma, ts, clipped, None if i == 0 else i - 1)!r})", **ctx))
                            break
                    if any(b < a for a, b in zip(got[1:], got[2:])):
                        issues.append(C.issue("C09:auto:order", f"expected limits not ordered: {got[1:]}", **ctx))
                    # per-point results are hypotest results at the reported scan points
                    ncmp += 1
                    for p, r_ in list(zip(pts, results))[:6]:
                        fresh = pyhf.infer.hypotest(float(p), [1.0], pdf, return_expected_set=True, **kw)
                        if f(fresh[0]) != f(r_[0]) or [f(x) for x in fresh[1]] != [f(x) for x in r_[1]]:
                            issues.append(C.issue("C09:auto:results", f"per-point result at mu={float(p)!r} is not the hypotest result there", **ctx))
                            break
                    if not alias:
                        o2, e2 = upper_limits.upper_limit([1.0], pdf, level=level, **kw)
                        if f(o2) != got[0] or [f(x) for x in e2] != got[1:]:
                            issues.append(C.issue("C09:auto:return_results", "limits differ with return_results on/off", **ctx))
                    dig.append([round(x, 5) for x in got])
                # ---- hypothesis-test options are forwarded in both scan modes: the caller holds the nuisance constant at 0.37;
                #      every fit the optimiser is asked for must carry that fixed value (read from the optimiser's call log)
                if ts == "qtilde" and dist == "normal":
                    for mode in ("auto", "grid"):
                        pdf = seams.FakePdf(npars=2, poi_bounds=(0, 10))
                        opt.calls.clear()
                        kwf = dict(kw, init_pars=[1.0, 0.37], fixed_params=[False, True])
                        try:
                            if mode == "auto":
                                upper_limits.upper_limit([1.0], pdf, level=level, **kwf)
                            else:
                                upper_limits.upper_limit([1.0], pdf, scan=np.linspace(0.0, min(10.0, max(roots) * 1.6 + 0.5), 11), level=level, **kwf)
                        except Exception as e:
                            issues.append(C.issue(f"C09:forward:{mode}:{type(e).__name__}", f"upper_limit with fixed_params raised {e}"[:200], **ctx))
                            continue
                        ncmp += 1
                        missing = [c_ for c_ in opt.calls if (1, 0.37) not in [tuple(x) for x in c_["fixed"]]]
                        if missing or not opt.calls:
                            issues.append(C.issue(f"C09:forward:fixed_params:{mode}", f"{len(missing)} of {len(opt.calls)} fits of the {mode} scan were requested without the caller's "
                                                  f"fixed nuisance (fixed_params/init_pars not forwarded)", **ctx))
                # ---- the root finder's documented tolerances (direct toms748_scan calls)
                for rtol in (1e-4, 1e-2):
                    pdf = seams.FakePdf(npars=2, poi_bounds=(0, 10))
                    try:
                        obs, exp = upper_limits.toms748_scan([1.0], pdf, 0.0, 10.0, level=level, rtol=rtol, **kw)
                    except Exception as e:
                        issues.append(C.issue(f"C09:toms748:{type(e).__name__}", f"toms748_scan raised {e}"[:200], **ctx))
                        continue
                    got = [f(obs)] + [f(x) for x in exp]
                    ncmp += 6
                    for i, (g, r) in enumerate(zip(got, roots)):
                        if not abs(g - r) <= 4 * (2e-12 + rtol * r):
                            issues.append(C.issue("C09:toms748:tolerance", f"toms748_scan(rtol={rtol}): limit[{i}] = {g!r}, root {r!r}: |diff| {abs(g - r):.3g} > 4*(atol + rtol*root) = "
                                                  f"{4 * (2e-12 + rtol * r):.3g}", **ctx))
                            break
                # ---- grids
                top = min(10.0, max(roots) * 1.6 + 0.5)
                for npts in (11, 21, 51):
                    scan = np.linspace(0.0, top, npts)
                    pdf = seams.FakePdf(npars=2, poi_bounds=(0, 10))
                    try:
                        obs, exp, (pts, results) = upper_limits.upper_limit([1.0], pdf, scan=scan, level=level, return_results=True, **kw)
                    except Exception as e:
                        issues.append(C.issue(f"C09:grid:{type(e).__name__}", f"grid upper_limit raised {e}"[:200], **ctx))
                        continue
                    got = [f(obs)] + [f(x) for x in exp]
                    ncmp += 12
                    for i, (g, r) in enumerate(zip(got, roots)):
                        cell = int(np.searchsorted(scan, r, side="right")) - 1
                        lo_, hi_ = scan[cell], scan[min(cell + 1, npts - 1)]
                        if not (lo_ - 1e-12 <= g <= hi_ + 1e-12):
                            issues.append(C.issue("C09:grid:cell", f"grid({npts}) limit[{i}] = {g!r} outside the crossing cell [{lo_!r},{hi_!r}] (root {r!r})", **ctx))
                            break
                        y0 = float(cls_ref(lo_, muhat, sigma, ts, clipped, None if i == 0 else i - 1))
                        y1 = float(cls_ref(hi_, muhat, sigma, ts, clipped, None if i == 0 else i - 1))
                        lin = lo_ + (hi_ - lo_) * (y0 - level) / (y0 - y1)
                        if not abs(g - lin) <= 1e-7 * (1 + abs(lin)):
                            issues.append(C.issue("C09:grid:interp", f"grid({npts}) limit[{i}] = {g!r}, linear interpolant in the crossing cell is {lin!r}", **ctx))
                            break
                    if len(results) != npts or not np.array_equal(np.asarray(pts, dtype=float), scan):
                        issues.append(C.issue("C09:grid:results", "returned scan/results do not match the supplied grid", **ctx))
                    else:
                        for p, r_ in list(zip(pts, results))[:: max(1, npts // 5)]:
                            fresh = pyhf.infer.hypotest(float(p), [1.0], pdf, return_expected_set=True, **kw)
                            if f(fresh[0]) != f(r_[0]) or [f(x) for x in fresh[1]] != [f(x) for x in r_[1]]:
                                issues.append(C.issue("C09:grid:results", f"per-point result at mu={float(p)!r} is not the hypotest result there", **ctx))
                                break
    finally:
        C.reset_backend()
    return dict(issues=issues, nontrivial=True, outcome=digest(dig), comparisons=ncmp)


def real(case):
    import pyhf
    from pyhf.infer.intervals import upper_limits

    mdl = models()[case["model"]]
    level = case["level"]
    issues, ncmp, dig = [], 0, []
    C.set_backend("numpy")
    tl = pyhf.tensorlib
    f = lambda t: float(np.ravel(np.asarray(tl.tolist(t), dtype=float))[0])
    try:
        m = pyhf.Model(mdl.spec(), poi_name="mu")
        base = [float(x) for x in mdl.rates(0.0, 1.0)]
        main = [float(int(x * (0.85, 1.0, 1.2)[case["dataset"]])) for x in base]
        data = C.tens(main + mdl.nominal_aux())
        ctx = dict(model=case["model"], data=main, level=level)
        curve = lambda mu, i: (lambda r: f(r[0]) if i == 0 else f(r[1][i - 1]))(pyhf.infer.hypotest(mu, data, m, return_expected_set=True))
        for mode in ("auto", "grid"):
            try:
                if mode == "auto":
                    obs, exp = upper_limits.upper_limit(data, m, level=level)
                else:
                    scan = np.linspace(0.0, 10.0, 41)
                    obs, exp = upper_limits.upper_limit(data, m, scan=scan, level=level)
            except ValueError as e:
                # At mu = 0 the Asimov statistic is exactly 0 while fit noise makes q(0) ~ 1e-9 > 0: CLs(0) is NaN and toms748 refuses to start.
                # No limit is returned, so the property (about returned limits) is not engaged; recorded in the outcome, not a violation.
                if "NaN" in str(e) and mode == "auto":
                    dig.append("nan-at-lower-bound")
                    continue
                issues.append(C.issue(f"C09:real:{mode}:{type(e).__name__}", f"upper_limit raised {e}"[:200], **ctx))
                continue
            except Exception as e:
                issues.append(C.issue(f"C09:real:{mode}:{type(e).__name__}", f"upper_limit raised {e}"[:200], **ctx))
                continue
            got = [f(obs)] + [f(x) for x in exp]
            ncmp += 7
            if any(b < a - 1e-9 for a, b in zip(got[1:], got[2:])):
                issues.append(C.issue("C09:real:order", f"expected limits not ordered: {got[1:]}", **ctx))
            for i, g in enumerate(got):
                if not 0 < g < 10:
                    continue
                if mode == "auto":
                    v = curve(g, i)
                    h = max(1e-3 * g, 1e-4)
                    slope = abs(curve(g + h, i) - curve(g - h, i)) / (2 * h)
                    if not abs(v - level) <= slope * 4e-4 * g + 2e-4:
                        issues.append(C.issue("C09:real:auto:level", f"limit[{i}] = {g!r} but CLs there is {v!r}, requested level {level}", **ctx))
                        break
                else:
                    cell = int(np.searchsorted(scan, g, side="right")) - 1
                    lo_, hi_ = scan[cell], scan[min(cell + 1, len(scan) - 1)]
                    if not (curve(lo_, i) >= level - 2e-4 and curve(hi_, i) <= level + 2e-4):
                        issues.append(C.issue("C09:real:grid:cell", f"grid limit[{i}] = {g!r}: CLs does not cross level {level} in its cell [{lo_},{hi_}]", **ctx))
                        break
            dig.append([round(x, 3) for x in got])
    finally:
        C.reset_backend()
    return dict(issues=issues, nontrivial=True, outcome=digest(dig), comparisons=ncmp)
