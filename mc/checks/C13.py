"""C13 — gradients handed to optimisers are the true gradient of the objective (DESIGN.md 4/C13)."""
from __future__ import annotations

import mpmath as mp
import numpy as np

from mc.checks import common as C
from mc.core.run import digest
from mc.gen import lattices as L
from mc.gen import specspace as S
from mc.ref import histfactory as H

ID = "C13"
LEVEL = "exploration"
TECHNIQUE = "bounded exhaustive enumeration (spec space x points incl. regime boundaries x fixed masks x do_stitch) against mpmath derivatives of the reference likelihood"
PRELOAD = None
LEVEL_TEXT = ("For every spec with <=k deviations, the value-and-gradient function that pyhf builds for a fit (optimize.common.shim with do_grad=True) is "
              "evaluated at generic points inside/outside the interpolation core and at alpha=+-1 for every interpolated parameter, for four fixed-parameter masks, "
              "stitched or not; the value must equal the non-differentiating path and the mpmath reference -2logL, the gradient must equal the mpmath "
              "numerical derivative (40 digits) of the reference with respect to every free parameter.")
LEVEL_NOTE = "trusted: mc/ref/histfactory.py, mpmath.diff; bounds: <=2 deviations (pytorch), <=1 quick / <=2 thorough (jax, tensorflow)"

SETTINGS = [("code4", "code4p"), ("code1", "code0"), ("code4", "code2")]


def plan(tier, seed):
    bk = {"pytorch": 2, "jax": 1 if tier == "quick" else 2, "tensorflow": 1 if tier == "quick" else 2}
    cases = []
    for r in range(3):
        for be, kb in bk.items():
            if r <= kb:
                for c in S.all_cases(r, exact=True):
                    if r == 0 and c["skel"] != "B1" and be != "pytorch":
                        continue
                    cases.append({"skel": c["skel"], "combo": c["combo"], "backend": be, "seed": seed,
                                  "lean": (be != "pytorch") or r == 2})
    return dict(
        cases=cases, chunk=6 if tier == "quick" else 12,
        rule="spec = skeleton + <=k deviations; per spec: points P0,P1,P2 and alpha=+-1 for each interpolated parameter x 2 datasets x fixed masks {none, POI, "
             "one nuisance, POI+nuisance} x do_stitch x interpolation settings (non-default settings at generic points only); 'lean' cases use 3 masks and "
             "1 dataset; non-trivial = spec has a nuisance parameter; distinct = distinct (spec, backend)",
        alphabet={"backends": list(bk), "interp_settings": SETTINGS},
        bound={"deviations_per_backend": bk},
        trusted_base=["mc/ref/histfactory.py", "mpmath.diff at 40 digits"],
    )


def eval_case(case):
    import pyhf
    from pyhf.infer.mle import twice_nll
    from pyhf.optimize.common import shim

    be = case["backend"]
    labels, spec = S.build(case["skel"], tuple(case["combo"]))
    ps = H.paramsets(spec)
    issues, ncmp, dig = [], 0, []
    has_interp = any(d["kind"] == "alpha" for d in ps.values())
    tl = C.set_backend(be)
    try:
        settings = SETTINGS if (has_interp and not case["lean"]) else SETTINGS[:1]
        variants = [(si, cn, ch_, spec, "mu") for si, (cn, ch_) in enumerate(settings)]
        # a model whose parameters are all bin-wise (read by direct gather): the POI normfactor removed, no POI declared
        binwise_only = len(ps) > 1 and all(d["kind"] in ("shapesys", "staterror", "freeN") for n_, d in ps.items() if n_ != "mu")
        if binwise_only:
            import copy as _copy
            sp2 = _copy.deepcopy(spec)
            for c_ in sp2["channels"]:
                for s_ in c_["samples"]:
                    s_["modifiers"] = [m_ for m_ in s_["modifiers"] if m_["name"] != "mu"]
            variants.append((0, "code4", "code4p", sp2, None))
        spec_full, ps_full = spec, ps
        for si, cn, ch_, spec, poi in variants:
            ps = H.paramsets(spec)
            codes = {"normsys": cn, "histosys": ch_}
            m = pyhf.Model(spec, poi_name=poi, modifier_settings={"normsys": {"interpcode": cn}, "histosys": {"interpcode": ch_}})
            cfg = m.config
            pts = L.points(spec, case.get("seed", 0), ps)
            if si > 0:
                pts = pts[1:3]  # generic points only: code0/code1 have genuine kinks at 0, code2 at +-1 is C1 only
            if case["lean"]:
                pts = pts[1:]
            nuis = [i for i in range(cfg.npars) if i != cfg.poi_index]
            if poi is None:
                masks = [[], [nuis[-1]]]
            else:
                masks = [[], [cfg.poi_index]] + ([[nuis[-1]], [cfg.poi_index, nuis[0]]] if nuis else [])
            if case["lean"] and len(masks) == 4:
                masks = [masks[0], masks[2], masks[3]]  # none, the last nuisance alone (a fixed index preceded by free ones), POI + first nuisance
            dsets = ["int", "frac"] if not case["lean"] else ["frac"]
            for pl, vals in pts:
                pv = np.array(L.vector(cfg, vals))
                for dk in dsets:
                    main = L.main_data(spec, dk, 0)
                    aux = L.aux_data(spec, 0, ps)
                    dv = L.data_vector(cfg, main, aux)

                    def f_of(vec):
                        v = {n: [vec[j] for j in range(cfg.par_slice(n).start, cfg.par_slice(n).stop)] for n in cfg.par_order}
                        return -2 * H.logpdf(spec, v, main, aux, codes=codes, ps=ps)

                    tm = []
                    base_vals = {n: list(vals[n]) for n in cfg.par_order}
                    refv = -2 * H.logpdf(spec, base_vals, main, aux, codes=codes, ps=ps, terms=tm)
                    mag = 2 * float(sum(tm)) + 1
                    gref = {}

                    def dref(i):
                        if i not in gref:
                            x0 = [mp.mpf(float(t)) for t in pv]

                            def g(t):
                                y = list(x0)
                                y[i] = t
                                return f_of(y)
                            gref[i] = float(mp.diff(g, x0[i]))
                        return gref[i]

                    for mask in masks:
                        fixed_vals = [(i, float(pv[i])) for i in mask]
                        for ds in (False, True):
                            ctx = dict(labels=labels, backend=be, interp=[cn, ch_], point=pl, data=dk, fixed=mask, do_stitch=ds)
                            try:
                                kw, stitch = shim(twice_nll, C.tens(dv), m, [float(x) for x in pv], cfg.suggested_bounds(), fixed_vals, do_grad=True, do_stitch=ds)
                                kw0, _ = shim(twice_nll, C.tens(dv), m, [float(x) for x in pv], cfg.suggested_bounds(), fixed_vals, do_grad=False, do_stitch=ds)
                                var_idx = [i for i in range(cfg.npars) if i not in mask] if ds else list(range(cfg.npars))
                                x = np.array([pv[i] for i in var_idx], dtype=np.float64)
                                xt = C.tens(x)
                                val, grad = kw["func"](xt)
                                val0 = kw0["func"](C.tens(x))
                                # the same tensor object evaluated again (and through a second function object): no state may accumulate
                                val_b, grad_b = kw["func"](xt)
                                if not np.array_equal(np.ravel(np.asarray(tl.tolist(grad_b), dtype=float)), np.ravel(np.asarray(tl.tolist(grad), dtype=float))):
                                    issues.append(C.issue(f"C13:gradient_state:{be}", "evaluating the value-and-gradient function twice on the same tensor gives different gradients", **ctx))
                            except Exception as e:
                                issues.append(C.issue(f"C13:raised:{type(e).__name__}:{be}", f"value-and-gradient function raised {e}"[:200], **ctx))
                                continue
                            val = float(np.ravel(np.asarray(tl.tolist(val) if not isinstance(val, (float, np.floating)) else val, dtype=float))[0])
                            val0 = float(np.ravel(np.asarray(tl.tolist(val0) if not isinstance(val0, (float, np.floating)) else val0, dtype=float))[0])
                            grad = np.ravel(np.asarray(tl.tolist(grad), dtype=float))
                            ncmp += 3
                            if not abs(val - val0) <= 16 * C.EPS64 * mag:
                                issues.append(C.issue(f"C13:value_vs_nograd:{be}", f"value with gradients {val!r} != non-differentiating path {val0!r}", **ctx))
                            if not abs(val - float(refv)) <= 64 * C.EPS64 * mag:
                                issues.append(C.issue(f"C13:value_vs_reference:{be}", f"value {val!r} != reference -2logL {float(refv)!r}", **ctx))
                            if grad.shape != (len(var_idx),):
                                issues.append(C.issue(f"C13:gradient_shape:{be}", f"gradient has shape {grad.shape} for {len(var_idx)} parameters", **ctx))
                                continue
                            for k, i in enumerate(var_idx):
                                if (not ds) and i in mask:
                                    continue  # without stitching the fixed components are still arguments; the optimiser ignores their derivative
                                r = dref(i)
                                ncmp += 1
                                if not abs(grad[k] - r) <= 1e-9 * (1 + abs(r)):
                                    issues.append(C.issue(f"C13:gradient:{be}", f"d(-2logL)/d{cfg.par_names[i]} = {grad[k]!r}, exact derivative {r!r}", **ctx))
                                    break
                            dig.append(round(val, 4))
    finally:
        C.reset_backend()
        if be == "jax":
            import jax
            jax.clear_caches()
    return dict(issues=issues, nontrivial=len(ps) > 1, outcome=digest(dig), comparisons=ncmp)
