"""C19 — the command line returns what the library returns (DESIGN.md 4/C19)."""
from __future__ import annotations

import copy
import itertools
import json
import os
import shutil
import subprocess
import tempfile
from pathlib import Path

import numpy as np

from mc.checks import common as C
from mc.core.run import digest
from mc.gen import specspace as S

ID = "C19"
LEVEL = "exploration"
TECHNIQUE = ("bounded exhaustive enumeration of option combinations (<=2 non-default options quick, <=3 thorough) per subcommand x input via file/stdin x output via "
             "file/stdout, CLI (click CliRunner, cover subset through real subprocesses) against the corresponding library call")
PRELOAD = None
LEVEL_TEXT = ("Every combination of at most 2 (3) non-default options from small per-option alphabets (including invalid values) is run through the real click commands "
              "and compared with the documented library call made with the same arguments: exit status 0 iff the library call succeeds, equal JSON/text values, file "
              "output identical to standard output, stdin identical to file input. Because the oracle is the library result for the *varied* argument, an option that "
              "is parsed but not forwarded is caught. A cover subset is repeated through real `pyhf` subprocesses.")
LEVEL_NOTE = "trusted: click's CliRunner (cross-checked by real subprocess runs); option alphabets are small and fixed; toybased cls is compared under identical seeding"


# ----------------------------------------------------------------------------- inputs
def inputs():
    m = S.menu("B2")
    combo = tuple(sorted(next(j for j, it in enumerate(m) if it[0] == lab) for lab in ("histosys:h1@zc/bkg", "staterror@ab/bkg", "normsys:n1@zc/sig", "lumi@zc/bkg", "normsys:sys@zc/bkg", "histosys:sys@ab/bkg")))
    _, spec = S.build("B2", combo)
    # observations well below the background expectation: mu_hat sits on its lower bound and q > q_A, the region where q and qtilde differ
    obs = {c["name"]: [float(int(0.7 * sum(s_["data"][b] for s_ in c["samples"] if s_["name"] != "sig"))) for b in range(len(c["samples"][0]["data"]))] for c in spec["channels"]}
    ws = S.workspace(spec, obs=obs, measurements=2)
    ws["measurements"][1]["name"] = "second"
    ws["measurements"][1]["config"]["parameters"] = [dict(p, sigmas=[0.3]) if p["name"] == "lumi" else p for p in ws["measurements"][1]["config"]["parameters"]] + [
        {"name": "mu", "bounds": [[0.0, 6.0]], "inits": [0.5]}]
    ws["measurements"].append({"name": "broken", "config": {"poi": "mu", "parameters": []}})  # lumi settings missing: the model cannot be built
    _, spec2 = S.build("B1", (next(j for j, it in enumerate(S.menu("B1")) if it[0] == "shapesys@c0/bkg"),))
    ws2 = S.workspace(spec2)
    ws2["measurements"][0]["name"] = "other"
    patch = [{"op": "replace", "path": "/channels/0/samples/0/data/0", "value": 17.5}, {"op": "replace", "path": "/observations/0/data/1", "value": 31.0}]
    patch2 = [{"op": "replace", "path": "/channels/0/samples/1/data/1", "value": 21.25}, {"op": "replace", "path": "/channels/0/samples/0/data/0", "value": 16.0}]
    import hashlib

    dig = lambda o, a: getattr(hashlib, a)(json.dumps(o, sort_keys=True, ensure_ascii=False).encode("utf8")).hexdigest()
    patchset = {"metadata": {"references": {"hepdata": "ins1234567"}, "description": "d", "digests": {"sha256": dig(ws, "sha256"), "md5": dig(ws, "md5")}, "labels": ["x", "y"]},
                "version": "1.0.0",
                "patches": [{"metadata": {"name": "pA", "values": [1, 2]}, "patch": patch},
                            {"metadata": {"name": "values", "values": [3, 4]}, "patch": [{"op": "remove", "path": "/measurements/2"}]}]}
    return dict(ws=ws, ws2=ws2, patch=patch, patch2=patch2, patchset=patchset, notjson="{ this is not json", invalid={"channels": []})


# ----------------------------------------------------------------------------- per-subcommand option alphabets: name -> list of (argv fragment, python kwargs)
def alphabets():
    A = {}
    A["cls"] = {
        "measurement": [(["--measurement", "second"], {"measurement": "second"}), (["--measurement", "missing"], {"measurement": "missing"})],
        "patch": [(["--patch", "@patch"], {"patch": True}), (["--patch", "@patch", "--patch", "@patch2"], {"patch": 2})],
        "test_poi": [(["--test-poi", "0.5"], {"test_poi": 0.5}), (["--test-poi", "2.0"], {"test_poi": 2.0})],
        "test_stat": [(["--test-stat", "q"], {"test_stat": "q"})],
        "backend": [(["--backend", "pytorch"], {"backend": "pytorch"}), (["--backend", "jax"], {"backend": "jax"})],
        "optimizer": [(["--optimizer", "minuit"], {"optimizer": "minuit"})],
        "optconf": [(["--optconf", "maxiter=3"], {"optconf": {"maxiter": 3}}), (["--optconf", "tolerance=0.000001"], {"optconf": {"tolerance": 1e-6}})],
    }
    A["fit"] = {k: v for k, v in A["cls"].items() if k not in ("test_poi", "test_stat")}
    A["fit"]["value"] = [(["--value"], {"value": True})]
    A["inspect"] = {"measurement": [(["--measurement", "second"], {"measurement": "second"}), (["--measurement", "missing"], {"measurement": "missing"}),
                                    (["--measurement", "broken"], {"measurement": "broken"})]}
    A["prune"] = {
        "channel": [(["-c", "ab"], {"channels": ["ab"]}), (["-c", "nope"], {"channels": ["nope"]})],
        "sample": [(["-s", "sig"], {"samples": ["sig"]})],
        "modifier": [(["-m", "n1"], {"modifiers": ["n1"]}), (["-m", "h1", "-m", "lumi"], {"modifiers": ["h1", "lumi"]})],
        "modifier_type": [(["-t", "staterror"], {"modifier_types": ["staterror"]})],
        "measurement": [(["--measurement", "second"], {"measurements": ["second"]}), (["--measurement", "nope"], {"measurements": ["nope"]})],
    }
    A["rename"] = {
        "channel": [(["-c", "ab", "ab2"], {"channels": {"ab": "ab2"}}), (["-c", "nope", "x"], {"channels": {"nope": "x"}})],
        "sample": [(["-s", "bkg", "background"], {"samples": {"bkg": "background"}})],
        "modifier": [(["-m", "n1", "norm1"], {"modifiers": {"n1": "norm1"}}), (["-m", "mu", "mu2"], {"modifiers": {"mu": "mu2"}})],
        "measurement": [(["--measurement", "second", "2nd"], {"measurements": {"second": "2nd"}})],
    }
    A["combine"] = {
        "join": [(["-j", j], {"join": j}) for j in ("outer", "left outer", "right outer")],
        "merge": [(["--merge-channels"], {"merge_channels": True})],
        "partner": [(["@ws"], {"partner": "ws"})],
    }
    A["sort"] = {}
    A["digest"] = {"algorithm": [(["-a", "md5"], {"algorithm": ["md5"]}), (["-a", "md5", "-a", "sha256"], {"algorithm": ["md5", "sha256"]}), (["-a", "nope"], {"algorithm": ["nope"]})],
                   "json": [(["--json"], {"json": True})]}
    A["patchset extract"] = {"name": [(["--name", "pA"], {"name": "pA"}), (["--name", "values"], {"name": "values"}), (["--name", "nope"], {"name": "nope"})],
                             "metadata": [(["--with-metadata"], {"with_metadata": True})]}
    A["patchset apply"] = {"name": [(["--name", "pA"], {"name": "pA"}), (["--name", "values"], {"name": "values"}), (["--name", "nope"], {"name": "nope"})],
                           "background": [(["@ws2"], {"background": "ws2"})]}
    A["patchset verify"] = {"background": [(["@ws2"], {"background": "ws2"})]}
    A["patchset inspect"] = {}
    A["json2xml"] = {"specroot": [(["--specroot", "cfg"], {"specroot": "cfg"})], "dataroot": [(["--dataroot", "dat"], {"dataroot": "dat"})],
                     "resultprefix": [(["--resultprefix", "Res"], {"resultprefix": "Res"})],
                     "patch": [(["--patch", "@patch"], {"patch": True}), (["--patch", "@patch", "--patch", "@patch2"], {"patch": 2})]}
    return A


def plan(tier, seed):
    kmax = 2 if tier == "quick" else 3
    A = alphabets()
    cases = []
    for cmd, alpha in A.items():
        names = list(alpha)
        for r in range(0, min(kmax, len(names)) + 1):
            for sub in itertools.combinations(names, r):
                for choice in itertools.product(*[range(len(alpha[n])) for n in sub]):
                    opts = {n: c for n, c in zip(sub, choice)}
                    heavy = cmd in ("cls", "fit") and ("backend" in opts)
                    if heavy and r > 2:
                        continue
                    for io in (["ff", "sf", "fs"] if r <= 1 else ["ff", "ss"]):
                        cases.append({"cmd": cmd, "opts": opts, "io": io})
    for bad in ("notjson", "invalid", "missingfile"):
        for cmd in ("cls", "fit", "inspect", "prune", "rename", "sort", "digest", "patchset verify", "patchset inspect", "json2xml"):
            cases.append({"cmd": cmd, "opts": {}, "io": "ff", "bad_input": bad})
    if tier == "thorough":
        cases.append({"cmd": "cls", "opts": {}, "io": "ff", "toybased": True})  # 2000 toys x 2 hypotheses: minutes
    nsub = 8 if tier == "quick" else 40
    step = max(1, len(cases) // nsub)
    for i in range(0, len(cases), step):
        if cases[i]["cmd"] not in ("json2xml",) and not cases[i].get("toybased"):
            cases.append(dict(cases[i], subprocess=True))
    return dict(
        cases=cases, chunk=12,
        rule="case = (subcommand, <=k non-default options with their alphabet choice, io mode: workspace from file/stdin x result to file/stdout); failing inputs (not JSON, "
             "schema-invalid, missing file) per command; one toybased cls under identical seeding; a cover subset re-run as real subprocesses; non-trivial = >=1 non-default "
             "option; distinct = distinct case",
        alphabet={cmd: {n: [a for a, _ in v] for n, v in alpha.items()} for cmd, alpha in A.items()},
        bound={"non_default_options": kmax},
        trusted_base=["click.testing.CliRunner", "real /venv/bin/pyhf subprocesses for the cover subset"],
    )


# ----------------------------------------------------------------------------- library oracles: return (ok, result-json-or-text)
def lib_model(ws, kw, inp):
    import pyhf

    patches = ([inp["patch"]] + ([inp["patch2"]] if kw.get("patch") == 2 else [])) if kw.get("patch") else []
    w = pyhf.Workspace(copy.deepcopy(ws))
    return w, w.model(measurement_name=kw.get("measurement"), patches=patches, modifier_settings={"normsys": {"interpcode": "code4"}, "histosys": {"interpcode": "code4p"}})


def set_cli_backend(kw):
    import pyhf

    be = kw.get("backend", "numpy")
    if be == "pytorch":
        pyhf.set_backend("pytorch", precision="64b")
    elif be == "jax":
        pyhf.set_backend("jax")
    tl, _ = pyhf.get_backend()
    opt = getattr(pyhf.optimize, kw.get("optimizer", "scipy") + "_optimizer")(**kw.get("optconf", {}))
    pyhf.set_backend(tl, opt)
    return tl


def oracle(cmd, kw, inp, tmp):
    import pyhf

    ws = inp["ws"]
    if cmd == "cls":
        # the documented library usage: choose the backend, then build the model (the command builds the model first and switches afterwards;
        # by C11 that must not matter, so the oracle deliberately does it the other way round)
        tl = set_cli_backend(kw)
        w, model = lib_model(ws, kw, inp)
        extra = {}
        if kw.get("toybased"):
            extra = dict(calctype="toybased")
            np.random.seed(4242)
        r = pyhf.infer.hypotest(kw.get("test_poi", 1.0), w.data(model), model, test_stat=kw.get("test_stat", "qtilde"), return_expected_set=True, **extra)
        return {"CLs_obs": tl.tolist(r[0]), "CLs_exp": [tl.tolist(t) for t in r[-1]]}
    if cmd == "fit":
        tl = set_cli_backend(kw)
        w = pyhf.Workspace(copy.deepcopy(ws))
        model = w.model(measurement_name=kw.get("measurement"), patches=([inp["patch"]] + ([inp["patch2"]] if kw.get("patch") == 2 else [])) if kw.get("patch") else [])
        fr = pyhf.infer.mle.fit(w.data(model), model, return_fitted_val=kw.get("value", False))
        pars = fr[0] if kw.get("value") else fr
        out = {"mle_parameters": {n: tl.tolist(pars[s["slice"]]) for n, s in model.config.par_map.items()}}
        if kw.get("value"):
            out["twice_nll"] = tl.tolist(fr[-1])
        return out
    if cmd == "inspect":
        w = pyhf.Workspace(copy.deepcopy(ws))
        meas = w.get_measurement(measurement_name=kw.get("measurement"))
        model = w.model(measurement_name=kw.get("measurement"))
        types = {}
        for c in ws["channels"]:
            for s_ in c["samples"]:
                for m_ in s_["modifiers"]:
                    types.setdefault(m_["name"], set()).add(m_["type"])
        return {"channels": [[c, w.channel_nbins[c]] for c in w.channels], "samples": w.samples,
                "parameters": sorted(model.config.par_map), "default": meas["name"], "modifier_types": {k: sorted(v) for k, v in sorted(types.items())},
                "measurements": [[m["name"], m["config"]["poi"], [p["name"] for p in m["config"]["parameters"]]] for m in w["measurements"]]}
    if cmd == "prune":
        return json.loads(json.dumps(pyhf.Workspace(copy.deepcopy(ws)).prune(**kw)))
    if cmd == "rename":
        return json.loads(json.dumps(pyhf.Workspace(copy.deepcopy(ws)).rename(**kw)))
    if cmd == "combine":
        right = inp[kw.get("partner", "ws2")]
        return json.loads(json.dumps(pyhf.Workspace.combine(pyhf.Workspace(copy.deepcopy(ws)), pyhf.Workspace(copy.deepcopy(right)), join=kw.get("join", "none"),
                                                            merge_channels=kw.get("merge_channels", False))))
    if cmd == "sort":
        return json.loads(json.dumps(pyhf.Workspace.sorted(pyhf.Workspace(copy.deepcopy(ws)))))
    if cmd == "digest":
        algs = kw.get("algorithm", ["sha256"])
        d = {a: pyhf.utils.digest(pyhf.Workspace(copy.deepcopy(ws)), algorithm=a) for a in algs}
        return d if kw.get("json") else "\n".join(f"{a}:{v}" for a, v in d.items())
    if cmd == "patchset extract":
        ps = pyhf.PatchSet(copy.deepcopy(inp["patchset"]))
        p = ps[kw.get("name")]
        if kw.get("with_metadata"):
            md = dict(p.metadata)
            md.update(ps.metadata)
            return {"metadata": md, "patch": p.patch}
        return p.patch
    if cmd == "patchset apply":
        ps = pyhf.PatchSet(copy.deepcopy(inp["patchset"]))
        bg = inp[kw.get("background", "ws")]
        return json.loads(json.dumps(ps.apply(pyhf.Workspace(copy.deepcopy(bg)), kw.get("name"))))
    if cmd == "patchset verify":
        pyhf.PatchSet(copy.deepcopy(inp["patchset"])).verify(pyhf.Workspace(copy.deepcopy(inp[kw.get("background", "ws")])))
        return "All good."
    if cmd == "patchset inspect":
        return [p.name for p in pyhf.PatchSet(copy.deepcopy(inp["patchset"])).patches]
    if cmd == "json2xml":
        import jsonpatch
        from pyhf import readxml, writexml

        spec = copy.deepcopy(ws)
        spec["measurements"] = spec["measurements"][:2]
        if kw.get("patch"):
            spec = jsonpatch.JsonPatch(inp["patch"]).apply(spec)
            if kw.get("patch") == 2:
                spec = jsonpatch.JsonPatch(inp["patch2"]).apply(spec)
        d = Path(tmp) / "lib"
        (d / kw.get("specroot", "config")).mkdir(parents=True)
        (d / kw.get("dataroot", "data")).mkdir(parents=True)
        cwd = os.getcwd()
        os.chdir(d)
        try:
            xml = writexml.writexml(spec, Path(kw.get("specroot", "config")), Path(kw.get("dataroot", "data")), kw.get("resultprefix", "FitConfig"))
            Path(kw.get("resultprefix", "FitConfig") + ".xml").write_bytes(xml)
            readxml.clear_filecache()
            return json.loads(json.dumps(readxml.parse(kw.get("resultprefix", "FitConfig") + ".xml", Path("."))))
        finally:
            os.chdir(cwd)
    raise KeyError(cmd)


def eval_case(case):
    import pyhf
    from click.testing import CliRunner

    from pyhf.cli import cli as pyhf_cli

    inp = inputs()
    A = alphabets()
    cmd = case["cmd"]
    argv_opts, kw = [], {}
    for n, c in case["opts"].items():
        a, k = A[cmd][n][c]
        argv_opts += a
        kw.update(k)
    if case.get("toybased"):
        argv_opts += ["--calctype", "toybased"]
        kw["toybased"] = True
    issues, ncmp = [], 0
    ctx = dict(cmd=cmd, opts=argv_opts, io=case["io"], bad_input=case.get("bad_input"), subprocess=bool(case.get("subprocess")))
    tmp = tempfile.mkdtemp(prefix="vc19_")
    try:
        files = {}
        for name in ("ws", "ws2", "patch", "patch2", "patchset", "invalid"):
            p = os.path.join(tmp, name + ".json")
            doc = inp[name]
            if name == "ws" and cmd == "json2xml":
                doc = dict(doc, measurements=doc["measurements"][:2])
            with open(p, "w") as f:
                json.dump(doc, f)
            files[name] = p
        with open(os.path.join(tmp, "notjson.json"), "w") as f:
            f.write(inp["notjson"])
        files["notjson"] = os.path.join(tmp, "notjson.json")
        files["missingfile"] = os.path.join(tmp, "does_not_exist.json")
        main_name = {"patchset extract": "patchset", "patchset inspect": "patchset"}.get(cmd, "ws")
        if cmd in ("patchset apply", "patchset verify"):
            main_name = kw.get("background", "ws")
        if case.get("bad_input"):
            main_name = case["bad_input"]
        argv = cmd.split()
        tail = []
        for a in argv_opts:
            if a.startswith("@"):
                continue
            tail.append(a)
        tail = [files[a[1:]] if a.startswith("@") else a for a in argv_opts if not (a.startswith("@") and a[1:] in ("ws", "ws2") and cmd in ("combine", "patchset apply", "patchset verify"))]
        stdin = None
        main_arg = files[main_name]
        if case["io"][0] == "s":
            stdin = open(files[main_name]).read() if os.path.exists(files[main_name]) else ""
            main_arg = "-"
        positional = [main_arg]
        if cmd == "combine":
            positional.append(files[kw.get("partner", "ws2")])
        if cmd in ("patchset apply", "patchset verify"):
            positional.append(files["patchset"])
        outfile = None
        has_outfile = cmd in ("cls", "fit", "prune", "rename", "combine", "sort", "patchset extract", "patchset apply", "inspect")
        if case["io"][1] == "f" and has_outfile:
            outfile = os.path.join(tmp, "out.json")
            tail += ["--output-file", outfile]
        if cmd == "json2xml":
            outdir = os.path.join(tmp, "cli")
            os.makedirs(outdir)
            tail += ["--output-dir", outdir]
        full = argv + positional + tail
        # ---- library oracle
        C.reset_backend()
        try:
            if case.get("bad_input"):
                raise ValueError("bad input")
            exp = oracle(cmd, kw, inp, tmp)
            exp_ok = True
        except Exception as e:
            exp, exp_ok = f"{type(e).__name__}: {e}", False
        finally:
            C.reset_backend()
        # ---- command line
        if case.get("subprocess"):
            r = subprocess.run(["/venv/bin/pyhf"] + full, input=stdin, capture_output=True, text=True, cwd=tmp, env={**os.environ, "PYTHONWARNINGS": "ignore"})
            code, out = r.returncode, r.stdout
        else:
            if kw.get("toybased"):
                np.random.seed(4242)
            runner = CliRunner()
            res = runner.invoke(pyhf_cli, full, input=stdin, catch_exceptions=True)
            code, out = res.exit_code, res.stdout
            C.reset_backend()
        ncmp += 2
        ok = code == 0
        if ok != exp_ok:
            issues.append(C.issue(f"C19:exit:{cmd}", f"`pyhf {' '.join(argv + tail)}` exits with {code} but the library call {'succeeds' if exp_ok else 'fails (' + str(exp)[:80] + ')'}", **ctx))
            return dict(issues=issues, nontrivial=bool(case["opts"]), outcome=digest([cmd, ok, exp_ok]), comparisons=ncmp)
        if not ok:
            return dict(issues=issues, nontrivial=bool(case["opts"]), outcome=digest([cmd, "fail", str(exp)[:40]]), comparisons=ncmp)
        # ---- compare output
        got_text = out
        if outfile:
            if not os.path.exists(outfile):
                issues.append(C.issue(f"C19:outfile:{cmd}", "--output-file was given but no file was written", **ctx))
                return dict(issues=issues, nontrivial=True, outcome="nofile", comparisons=ncmp)
            got_text = open(outfile).read()
        if cmd == "json2xml":
            from pyhf import readxml

            readxml.clear_filecache()
            cwd = os.getcwd()
            os.chdir(outdir)
            try:
                got = json.loads(json.dumps(readxml.parse(kw.get("resultprefix", "FitConfig") + ".xml", Path("."))))
            finally:
                os.chdir(cwd)
                readxml.clear_filecache()
            # and back through the xml2json command (file and stdout output)
            r1 = CliRunner().invoke(pyhf_cli, ["xml2json", os.path.join(outdir, kw.get("resultprefix", "FitConfig") + ".xml"), "--basedir", outdir, "--hide-progress"])
            r2 = CliRunner().invoke(pyhf_cli, ["xml2json", os.path.join(outdir, kw.get("resultprefix", "FitConfig") + ".xml"), "--basedir", outdir, "--hide-progress",
                                               "--output-file", os.path.join(tmp, "x2j.json")])
            ncmp += 2
            if r1.exit_code != 0 or r2.exit_code != 0 or json.loads(r1.stdout) != json.load(open(os.path.join(tmp, "x2j.json"))) or json.loads(r1.stdout) != got:
                issues.append(C.issue("C19:xml2json", "xml2json output differs between stdout, --output-file and readxml.parse", **ctx))
        elif cmd == "inspect":
            if outfile:
                j = json.loads(got_text)
                got = {"channels": [list(x) for x in j["channels"]], "samples": j["samples"], "parameters": sorted(x[0] for x in j["parameters"]),
                       "measurements": [list(x) for x in j["measurements"]], "default": exp["default"],
                       "modifier_types": {x[0]: sorted(set(x[2])) for x in sorted(j["systematics"])}}
                # the text table must be printed as well; it carries the default-measurement marker
                if parse_inspect(out)["default"] != exp["default"]:
                    issues.append(C.issue("C19:values:inspect:marker", f"default-measurement marker {parse_inspect(out)['default']} != {exp['default']}", **ctx))
            else:
                got = parse_inspect(got_text)
        elif cmd == "patchset inspect":
            got = [l for l in got_text.strip().splitlines() if l and not l.startswith("-") and "patches found" not in l]
        elif cmd in ("patchset verify",) or (cmd == "digest" and not kw.get("json")):
            got = got_text.strip()
        else:
            try:
                got = json.loads(got_text)
            except Exception:
                issues.append(C.issue(f"C19:output:{cmd}", f"output is not JSON: {got_text[:80]!r}", **ctx))
                return dict(issues=issues, nontrivial=True, outcome="notjson", comparisons=ncmp)
        ncmp += 1
        if got != json.loads(json.dumps(exp)) if not isinstance(exp, str) else got != exp:
            issues.append(C.issue(f"C19:values:{cmd}", f"`pyhf {' '.join(argv + tail)}` returns {json.dumps(got)[:160]} but the library call gives {json.dumps(exp)[:160]}", **ctx))
    finally:
        shutil.rmtree(tmp, ignore_errors=True)
        C.reset_backend()
    return dict(issues=issues, nontrivial=bool(case["opts"]), outcome=digest([cmd, case["opts"], "ok"]), comparisons=ncmp)


def parse_inspect(text):
    """parse the plain-text tables of `pyhf inspect` into the same structure the oracle builds."""
    blocks = [b for b in text.strip().split("\n\n")]
    out = {"channels": [], "samples": [], "parameters": [], "measurements": [], "default": None, "modifier_types": {}}
    for b in blocks:
        lines = [l for l in b.splitlines() if l.strip()]
        if not lines:
            continue
        head = lines[0].split()
        if head[:2] == ["channels", "nbins"]:
            out["channels"] = [[l.split()[0], int(l.split()[1])] for l in lines[2:]]
        elif head == ["samples"]:
            out["samples"] = [l.strip() for l in lines[2:]]
        elif head[:2] == ["parameters", "constraint"]:
            out["parameters"] = sorted(l.split()[0] for l in lines[2:])
            out["modifier_types"] = {l.split()[0]: sorted(l.split()[2].split(",")) for l in sorted(lines[2:])}
        elif head[:2] == ["measurement", "poi"]:
            for l in lines[2:]:
                t = l.split()
                if t[0] == "(*)":
                    out["default"] = t[1]
                    t = t[1:]
                out["measurements"].append([t[0], t[1], [] if t[2] == "(none)" else t[2].split(",")])
    return out


def _cmp_inspect(got, exp):
    return all(got[k] == exp[k] for k in ("channels", "samples", "parameters", "measurements", "default"))
