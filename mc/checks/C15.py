"""C15 — inference is invariant under likelihood-preserving rewrites and configurations (DESIGN.md 4/C15)."""
from __future__ import annotations

import copy
import json
import math

import numpy as np

from mc.checks import common as C
from mc.core.run import canon, digest

ID = "C15"
LEVEL = "model_checking"
TECHNIQUE = ("explicit-state breadth-first search over compositions of likelihood-preserving rewrite programs (states = canonical sorted spec); every transition's "
             "model is fitted with the real inference chain and compared differentially with the root model; cross-backend / cross-optimiser runs on root and depth-1 states")
PRELOAD = None
LEVEL_TEXT = ("For each sensitive start model the rewrite alphabet (permute/rename channels, samples, modifiers, parameters; zero-yield sample; null systematics; split a "
              "channel's bins; merge two samples with identical modifiers; rescale the signal) is composed breadth-first to depth 2 (3 thorough). The model produced by "
              "every transition is run through the unmodified mle.fit, qmu_tilde, hypotest and (on a transition cover) upper_limit and must reproduce the root's "
              "maximised likelihood (minus the constant of added constraint terms), statistics, observed/expected CLs and limits within fit tolerance, covariantly for "
              "signal rescaling; root and depth-1 states are repeated on jax/pytorch/tensorflow and with minuit at tight tolerance.")
LEVEL_NOTE = ("differential oracle (root model vs rewritten model) - no closed form needed; tolerances calibrated on the unchanged tree: tight optimiser settings 2NLL 1e-6, CLs 3e-5; "
              "default settings 2NLL 2e-4, CLs 2e-4; limits 2e-3 relative")

LOG2PI = math.log(2 * math.pi)


# ----------------------------------------------------------------------------- start models (spec, observations by channel name)
def roots():
    def mu():
        return {"name": "mu", "type": "normfactor", "data": None}

    R = {}
    R["R1"] = ({"channels": [{"name": "sr", "samples": [
        {"name": "sig", "data": [6.0, 9.0], "modifiers": [mu()]},
        {"name": "bkg1", "data": [40.0, 30.0], "modifiers": [{"name": "n1", "type": "normsys", "data": {"lo": 0.9, "hi": 1.12}}, {"name": "st_sr", "type": "staterror", "data": [3.0, 2.5]}]},
        # bkg2 is empty in the first bin but carries an MC-statistical uncertainty there (legitimate; matters for the quadrature sum when merging)
        {"name": "bkg2", "data": [0.0, 12.0], "modifiers": [{"name": "n1", "type": "normsys", "data": {"lo": 0.9, "hi": 1.12}}, {"name": "st_sr", "type": "staterror", "data": [1.5, 1.0]}]}]}]},
        {"sr": [44.0, 47.0]})
    R["R2"] = ({"channels": [
        {"name": "zc", "samples": [
            {"name": "sig", "data": [7.0, 5.0], "modifiers": [mu()]},
            {"name": "bkg", "data": [50.0, 35.0], "modifiers": [{"name": "h1", "type": "histosys", "data": {"lo_data": [46.0, 33.0], "hi_data": [55.0, 36.5]}},
                                                              {"name": "ss_zc", "type": "shapesys", "data": [5.0, 4.0]}]}]},
        {"name": "ab", "samples": [
            {"name": "bkg", "data": [80.0, 60.0, 40.0], "modifiers": [{"name": "h1", "type": "histosys", "data": {"lo_data": [75.0, 57.0, 39.0], "hi_data": [86.0, 62.0, 41.5]}}]}]}]},
        {"zc": [61.0, 44.0], "ab": [83.0, 57.0, 42.0]})  # an excess: mu_hat ~ 1.3, so mu_hat/k leaves the default POI range for k = 0.1
    R["R3"] = ({"channels": [
        {"name": "m", "samples": [
            {"name": "sig", "data": [8.0], "modifiers": [mu(), {"name": "lumi", "type": "lumi", "data": None}]},
            {"name": "bkg", "data": [45.0], "modifiers": [{"name": "lumi", "type": "lumi", "data": None}, {"name": "sys", "type": "normsys", "data": {"lo": 0.93, "hi": 1.08}}]}]},
        {"name": "c2", "samples": [
            {"name": "bkg", "data": [60.0, 50.0], "modifiers": [{"name": "lumi", "type": "lumi", "data": None}, {"name": "sys", "type": "histosys", "data": {"lo_data": [57.0, 48.0], "hi_data": [64.0, 51.5]}}]}]}],
        "parameters": [{"name": "lumi", "auxdata": [1.0], "sigmas": [0.03], "bounds": [[0.7, 1.3]], "inits": [1.0]}]},
        {"m": [50.0], "c2": [62.0, 47.0]})
    R["R4"] = ({"channels": [
        {"name": "a_sr", "samples": [
            {"name": "sig", "data": [6.0, 4.0], "modifiers": [mu()]},
            {"name": "bkg", "data": [40.0, 25.0], "modifiers": [{"name": "k", "type": "normfactor", "data": None}, {"name": "st_a", "type": "staterror", "data": [2.0, 1.5]}]}]},
        {"name": "b_cr", "samples": [
            {"name": "bkg", "data": [90.0, 70.0], "modifiers": [{"name": "k", "type": "normfactor", "data": None}]}]}]},
        {"a_sr": [49.0, 27.0], "b_cr": [95.0, 66.0]})
    R["R5"] = ({"channels": [
        {"name": "sr", "samples": [
            {"name": "sig", "data": [5.0, 7.0], "modifiers": [mu()]},
            {"name": "bkg", "data": [30.0, 45.0], "modifiers": [{"name": "sfX", "type": "shapefactor", "data": None}]}]},
        {"name": "cr", "samples": [
            {"name": "bkg", "data": [120.0, 150.0], "modifiers": [{"name": "sfX", "type": "shapefactor", "data": None}, {"name": "n2", "type": "normsys", "data": {"lo": 0.95, "hi": 1.04}}]}]}]},
        {"sr": [38.0, 50.0], "cr": [118.0, 156.0]})
    R["R6"] = ({"channels": [{"name": "c", "samples": [
        {"name": "sig", "data": [4.0, 6.0, 5.0], "modifiers": [mu(), {"name": "ns", "type": "normsys", "data": {"lo": 0.92, "hi": 1.1}}]},
        {"name": "bkg", "data": [30.0, 28.0, 22.0], "modifiers": [{"name": "ss_c", "type": "shapesys", "data": [2.5, 0.0, 2.0]}, {"name": "h2", "type": "histosys", "data": {"lo_data": [28.0, 27.0, 21.0], "hi_data": [33.0, 29.5, 22.5]}}]}]}]},
        {"c": [36.0, 31.0, 30.0]})
    return R


# ----------------------------------------------------------------------------- rewrites: (spec, obs) -> (spec', obs', info) or None when not applicable
def _cp(spec, obs):
    return copy.deepcopy(spec), copy.deepcopy(obs)


def rw_perm_channels(spec, obs):
    s, o = _cp(spec, obs)
    if len(s["channels"]) < 2:
        return None
    s["channels"].reverse()
    return s, o, {}


def rw_perm_samples(spec, obs):
    s, o = _cp(spec, obs)
    if all(len(c["samples"]) < 2 for c in s["channels"]):
        return None
    for c in s["channels"]:
        c["samples"].reverse()
    return s, o, {}


def rw_perm_modifiers(spec, obs):
    s, o = _cp(spec, obs)
    if all(len(x["modifiers"]) < 2 for c in s["channels"] for x in c["samples"]):
        return None
    for c in s["channels"]:
        for x in c["samples"]:
            x["modifiers"].reverse()
    return s, o, {}


def rw_rename_channel(spec, obs):
    s, o = _cp(spec, obs)
    c = s["channels"][0]
    new = "q" + c["name"]
    if new in [x["name"] for x in s["channels"]] or len(c["name"]) > 8:
        return None
    o[new] = o.pop(c["name"])
    c["name"] = new
    return s, o, {}


def rw_rename_sample(spec, obs):
    s, o = _cp(spec, obs)
    names = sorted({x["name"] for c in s["channels"] for x in c["samples"] if x["name"].startswith("bkg")})
    if not names or len(names[0]) > 8:
        return None
    for c in s["channels"]:
        for x in c["samples"]:
            if x["name"] == names[0]:
                x["name"] = "y" + names[0]
    return s, o, {}


def rw_rename_parameter(spec, obs):
    s, o = _cp(spec, obs)
    names = sorted({m["name"] for c in s["channels"] for x in c["samples"] for m in x["modifiers"] if m["type"] != "lumi"})
    if any(len(n) > 10 for n in names):
        return None
    # rename the POI and the first nuisance parameter
    targets = {"mu" if "mu" in names else None, next((n for n in names if not n.startswith("mu")), None)} - {None}
    ren = {n: n + "_r" for n in targets if n + "_r" not in names}
    if not ren:
        return None
    for c in s["channels"]:
        for x in c["samples"]:
            for m in x["modifiers"]:
                m["name"] = ren.get(m["name"], m["name"])
    for p in s.get("parameters", []):
        p["name"] = ren.get(p["name"], p["name"])
    return s, o, {"poi_rename": ren}


def rw_zero_sample(spec, obs):
    s, o = _cp(spec, obs)
    c = s["channels"][0]
    if any(x["name"] == "zero" for x in c["samples"]):
        return None
    c["samples"].append({"name": "zero", "data": [0.0] * len(c["samples"][0]["data"]), "modifiers": []})
    return s, o, {}


def rw_null_systematics(spec, obs):
    s, o = _cp(spec, obs)
    have = {m["name"] for c in s["channels"] for x in c["samples"] for m in x["modifiers"]}
    if any(n.startswith("null") for n in have):
        return None
    x = next(x for c in s["channels"] for x in c["samples"] if x["name"] != "zero" and sum(x["data"]) > 0 and not x["name"].startswith("sig"))
    x["modifiers"].append({"name": "nullh", "type": "histosys", "data": {"lo_data": list(x["data"]), "hi_data": list(x["data"])}})
    x["modifiers"].append({"name": "nulln", "type": "normsys", "data": {"lo": 1.0, "hi": 1.0}})
    return s, o, {"const": 2 * LOG2PI}  # two unit Gaussians evaluated at their mean: -2 log(1/sqrt(2 pi)) each


def rw_split_channel(spec, obs):
    s, o = _cp(spec, obs)
    ci = next((i for i, c in enumerate(s["channels"]) if len(c["samples"][0]["data"]) >= 2 and not c["name"].endswith(("_lo", "_hi"))), None)
    if ci is None:
        return None
    c = s["channels"][ci]
    nb = len(c["samples"][0]["data"])
    # a bin-wise parameter shared with another channel cannot be split consistently
    binwise_here = {m["name"] for x in c["samples"] for m in x["modifiers"] if m["type"] in ("shapefactor", "staterror", "shapesys")}
    elsewhere = {m["name"] for j, c2 in enumerate(s["channels"]) if j != ci for x in c2["samples"] for m in x["modifiers"]}
    if binwise_here & elsewhere:
        return None
    parts = []
    for tag, sl in (("_lo", slice(0, 1)), ("_hi", slice(1, nb))):
        nc = {"name": c["name"] + tag, "samples": []}
        for x in c["samples"]:
            nx = {"name": x["name"], "data": x["data"][sl], "modifiers": []}
            for m in x["modifiers"]:
                m2 = copy.deepcopy(m)
                if m["type"] == "histosys":
                    m2["data"] = {k: v[sl] for k, v in m["data"].items()}
                elif m["type"] in ("shapesys", "staterror"):
                    m2["data"] = m["data"][sl]
                    m2["name"] = m["name"] + tag
                elif m["type"] == "shapefactor":
                    m2["name"] = m["name"] + tag
                nx["modifiers"].append(m2)
            nc["samples"].append(nx)
        parts.append(nc)
        o[nc["name"]] = o[c["name"]][sl]
    del o[c["name"]]
    s["channels"][ci:ci + 1] = parts
    return s, o, {}


def rw_merge_samples(spec, obs):
    s, o = _cp(spec, obs)
    for c in s["channels"]:
        for i, a in enumerate(c["samples"]):
            for j, b in enumerate(c["samples"]):
                if j <= i:
                    continue
                ka = sorted((m["name"], m["type"]) for m in a["modifiers"])
                kb = sorted((m["name"], m["type"]) for m in b["modifiers"])
                if ka != kb or not ka or any(t in ("shapesys", "histosys") and False for _, t in ka):
                    continue
                # identical modifiers: same names/types and same data for data-less/multiplicative ones
                ok = True
                merged = []
                for m in a["modifiers"]:
                    mb = next(x for x in b["modifiers"] if (x["name"], x["type"]) == (m["name"], m["type"]))
                    if m["type"] in ("normsys", "normfactor", "lumi", "shapefactor"):
                        if m["data"] != mb["data"]:
                            ok = False
                        merged.append(copy.deepcopy(m))
                    elif m["type"] == "staterror":
                        merged.append({"name": m["name"], "type": "staterror", "data": [math.sqrt(u * u + v * v) for u, v in zip(m["data"], mb["data"])]})
                    elif m["type"] == "histosys":
                        merged.append({"name": m["name"], "type": "histosys", "data": {k: [u + v for u, v in zip(m["data"][k], mb["data"][k])] for k in m["data"]}})
                    else:
                        ok = False
                # a staterror shared with a third sample is fine (quadrature sum is associative); shapesys cannot be merged
                if not ok:
                    continue
                new = {"name": a["name"], "data": [u + v for u, v in zip(a["data"], b["data"])], "modifiers": merged}
                c["samples"] = [x for k, x in enumerate(c["samples"]) if k not in (i, j)] + [new]
                return s, o, {}
    return None


def rw_scale_signal(k):
    def f(spec, obs):
        s, o = _cp(spec, obs)
        if any(m["type"] == "staterror" for c in s["channels"] for x in c["samples"] if x["name"].startswith("sig") for m in x["modifiers"]):
            return None
        for c in s["channels"]:
            for x in c["samples"]:
                if x["name"].startswith("sig"):
                    x["data"] = [v * k for v in x["data"]]
                    for m in x["modifiers"]:
                        if m["type"] == "histosys":
                            m["data"] = {kk: [v * k for v in vv] for kk, vv in m["data"].items()}
        return s, o, {"scale": k}
    return f


REWRITES = [("perm_channels", rw_perm_channels), ("perm_samples", rw_perm_samples), ("perm_modifiers", rw_perm_modifiers), ("rename_channel", rw_rename_channel),
            ("rename_sample", rw_rename_sample), ("rename_parameter", rw_rename_parameter), ("zero_sample", rw_zero_sample), ("null_systematics", rw_null_systematics),
            ("split_channel", rw_split_channel), ("merge_samples", rw_merge_samples), ("scale_signal_x2", rw_scale_signal(2.0)), ("scale_signal_x0.5", rw_scale_signal(0.5)),
            ("scale_signal_x0.1", rw_scale_signal(0.1))]
RW = dict(REWRITES)


def canonical(spec):
    s = copy.deepcopy(spec)
    s["channels"].sort(key=lambda c: c["name"])
    for c in s["channels"]:
        c["samples"].sort(key=lambda x: x["name"])
        for x in c["samples"]:
            x["modifiers"].sort(key=lambda m: (m["name"], m["type"]))
    return canon(s)


def plan(tier, seed):
    names = ["R1", "R2", "R3", "R4"] if tier == "quick" else list(roots())
    depth = 2 if tier == "quick" else 3
    cases = []
    for r in names:
        for first, _ in REWRITES:
            cases.append({"kind": "bfs", "root": r, "first": first, "depth": depth, "settings": "tight"})
        cases.append({"kind": "bfs", "root": r, "first": None, "depth": 1, "settings": "default"})
        for cfg in (("jax", "scipy"), ("pytorch", "scipy"), ("tensorflow", "scipy"), ("numpy", "minuit")):
            cases.append({"kind": "config", "root": r, "backend": cfg[0], "optimizer": cfg[1]})
    return dict(
        cases=cases, chunk=1,
        rule="bfs case = (start model, first rewrite): breadth-first composition of the 12-rewrite alphabet below that first step to the stated depth, every transition's model "
             "evaluated (fit, qtilde at two mu, observed and expected CLs; upper limits on depth-1 states and every 4th deeper transition) against the root; config case = "
             "(start model, backend, optimiser): root and all depth-1 states vs the numpy/scipy tight reference; non-trivial = >=2 applicable rewrites evaluated; distinct = distinct case",
        alphabet={"start_models": names, "rewrites": [n for n, _ in REWRITES]},
        bound={"depth": depth},
        trusted_base=["the root model's own inference (differential oracle)"],
    )


def model_of(spec, obs, poi="mu"):
    import pyhf

    m = pyhf.Model(spec, poi_name=poi)
    data = [float(x) for ch in m.config.channels for x in obs[ch]] + list(m.config.auxdata)
    return m, data


def measure(spec, obs, poi="mu", scale=1.0, limits=False, mus=(0.6, 1.2)):
    import pyhf

    m, data = model_of(spec, obs, poi)
    tl = pyhf.tensorlib
    d = tl.astensor(np.asarray(data, dtype=np.float64))
    f = lambda t: float(np.ravel(np.asarray(tl.tolist(t), dtype=float))[0])
    out = {}
    # the POI range is the caller's: it scales with 1/k like the POI itself (root: the suggested (0, 10))
    bounds = m.config.suggested_bounds()
    bounds[m.config.poi_index] = (0.0, 10.0 / scale)
    _, nll = pyhf.infer.mle.fit(d, m, par_bounds=bounds, return_fitted_val=True)
    out["nll"] = f(nll)
    out["q"] = []
    out["cls"] = []
    for mu in mus:
        mt = mu / scale
        out["q"].append(f(pyhf.infer.test_statistics.qmu_tilde(mt, d, m, m.config.suggested_init(), bounds, m.config.suggested_fixed())))
        r = pyhf.infer.hypotest(mt, d, m, par_bounds=bounds, return_expected_set=True)
        out["cls"].append([f(r[0])] + [f(x) for x in r[1]])
    if limits:
        o, e = pyhf.infer.intervals.upper_limits.upper_limit(d, m, level=0.05, rtol=1e-6)
        out["limits"] = [f(o) * scale] + [f(x) * scale for x in e]
    return out


def set_settings(settings, backend="numpy", optimizer="scipy"):
    import pyhf

    if settings == "tight":
        opt = pyhf.optimize.scipy_optimizer(tolerance=1e-10) if optimizer == "scipy" else pyhf.optimize.minuit_optimizer(tolerance=1e-5)
    else:
        opt = optimizer
    pyhf.set_backend(backend, opt, precision="64b")


TOLS = {"tight": dict(nll=2e-6, q=4e-6, cls=3e-5, lim=2e-3), "default": dict(nll=2e-4, q=4e-4, cls=2e-4, lim=2e-3), "config": dict(nll=2e-5, q=4e-5, cls=5e-5, lim=2e-3)}


def compare(ref, got, info, tol, issues, ctx, key):
    n = 3
    const = info.get("const", 0.0)
    if not abs((got["nll"] - const) - ref["nll"]) <= tol["nll"]:
        issues.append(C.issue(f"C15:{key}:max_likelihood", f"maximised 2NLL {got['nll'] - const!r} (after removing the added constraint constants) != root {ref['nll']!r}", **ctx))
    for a, b in zip(got["q"], ref["q"]):
        if not abs(a - b) <= tol["q"] * (1 + abs(b)):
            issues.append(C.issue(f"C15:{key}:qtilde", f"qtilde {a!r} != root {b!r}", **ctx))
            break
    for a, b in zip(got["cls"], ref["cls"]):
        if any(abs(x - y) > tol["cls"] for x, y in zip(a, b)):
            issues.append(C.issue(f"C15:{key}:CLs", f"CLs (observed, expected band) {a} != root {b}", **ctx))
            break
    if "limits" in got and "limits" in ref:
        n += 1
        if any(abs(x - y) > tol["lim"] * y for x, y in zip(got["limits"], ref["limits"])):
            issues.append(C.issue(f"C15:{key}:upper_limit", f"upper limits {got['limits']} != root {ref['limits']} (covariant scaling applied)", **ctx))
    return n


def apply_path(root, path):
    spec, obs = copy.deepcopy(root[0]), copy.deepcopy(root[1])
    info = {"const": 0.0, "scale": 1.0, "poi": "mu"}
    for name in path:
        r = RW[name](spec, obs)
        if r is None:
            return None
        spec, obs, i = r
        info["const"] += i.get("const", 0.0)
        info["scale"] *= i.get("scale", 1.0)
        if "poi_rename" in i:
            info["poi"] = i["poi_rename"].get(info["poi"], info["poi"])
    return spec, obs, info


def eval_case(case):
    import pyhf

    root = roots()[case["root"]]
    issues, ncmp = [], 0
    if case["kind"] == "config":
        return config_case(case, root)
    set_settings(case["settings"])
    try:
        ref = measure(root[0], root[1], limits=True)
        # premise of the property: sensitive model (median expected CLs at the tested mu below 0.9)
        if not ref["cls"][1][3] < 0.9:
            issues.append(C.issue("C15:harness:insensitive_root", f"start model {case['root']} is not sensitive: median expected CLs {ref['cls'][1][3]}"))
        seen = {canonical(root[0])}
        firsts = [case["first"]] if case["first"] else [n for n, _ in REWRITES]
        frontier = [[]]
        states, trans, evaluated = 1, 0, 0
        for depth in range(case["depth"]):
            nxt = []
            for path in frontier:
                for name, _ in REWRITES:
                    if depth == 0 and name not in firsts:
                        continue
                    res = apply_path(root, path + [name])
                    if res is None:
                        continue
                    spec, obs, info = res
                    trans += 1
                    ctx = dict(root=case["root"], path=path + [name], settings=case["settings"])
                    # limits scale by 1/k: below k = 0.5 the +2 sigma expected limit leaves the POI range (0, 10) -> outside the property's premise
                    want_limits = (depth == 0 or trans % 4 == 0) and max(ref["limits"]) / info["scale"] < 9.0
                    try:
                        got = measure(spec, obs, poi=info["poi"], scale=info["scale"], limits=want_limits)
                    except Exception as e:
                        issues.append(C.issue(f"C15:rewrite:{type(e).__name__}", f"inference on the rewritten model raised {type(e).__name__}: {e}"[:200], **ctx))
                        continue
                    evaluated += 1
                    ncmp += compare(ref, got, info, TOLS[case["settings"]], issues, ctx, "rewrite:" + name)
                    k = canonical(spec)
                    if k not in seen:
                        seen.add(k)
                        states += 1
                        nxt.append(path + [name])
            frontier = nxt
    finally:
        C.reset_backend()
    return dict(issues=issues, nontrivial=evaluated >= 2 or bool(case["first"]), outcome=digest([case["root"], case["first"], states, trans, round(ref["nll"], 3)]), comparisons=ncmp, trans=trans,
                extra={"states": states, "evaluated": evaluated})


def config_case(case, root):
    issues, ncmp = [], 0
    try:
        set_settings("tight")
        with_limits = case["backend"] in ("jax", "pytorch")  # upper limits agree across backends too (root model; tensorflow: minutes per limit, thorough C09 covers it)
        refs = {(): measure(root[0], root[1], limits=with_limits)}
        paths = [[]]
        for name, _ in REWRITES:
            res = apply_path(root, [name])
            if res is not None:
                paths.append([name])
        set_settings("tight", case["backend"], case["optimizer"])
        n = 0
        for path in paths:
            spec, obs, info = apply_path(root, path)
            ctx = dict(root=case["root"], path=path, backend=case["backend"], optimizer=case["optimizer"])
            try:
                got = measure(spec, obs, poi=info["poi"], scale=info["scale"], limits=with_limits and not path)
            except Exception as e:
                issues.append(C.issue(f"C15:config:{case['backend']}:{case['optimizer']}:{type(e).__name__}", f"inference raised {type(e).__name__}: {e}"[:200], **ctx))
                continue
            n += 1
            ncmp += compare(refs[()], got, info, TOLS["config"], issues, ctx, f"config:{case['backend']}:{case['optimizer']}")
    finally:
        C.reset_backend()
        if case["backend"] == "jax":
            import jax
            jax.clear_caches()
    return dict(issues=issues, nontrivial=n >= 2, outcome=digest([case["root"], case["backend"], case["optimizer"], n]), comparisons=ncmp, trans=n, extra={"states": 0, "evaluated": n})


def finalize(results, plan, cases):
    st = sum((r.get("extra") or {}).get("states", 0) for r in results)
    tr = sum(r.get("trans", 0) for r in results)
    return {"states": max(st, 1), "transitions": max(tr, 1), "traces_validated_against_impl": sum((r.get("extra") or {}).get("evaluated", 0) for r in results),
            "samples": [{"root": "R1", "path": ["split_channel", "merge_samples"], "oracle": "maximised 2NLL, qtilde(0.6), qtilde(1.2), CLs obs + 5 expected, limits == root"}]}
