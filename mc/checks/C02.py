"""C02 — the log-likelihood is exactly the HistFactory template (DESIGN.md 4/C02)."""
from __future__ import annotations

import math

import numpy as np

from mc.checks import common as C
from mc.core.run import digest
from mc.gen import lattices as L
from mc.gen import specspace as S
from mc.ref import histfactory as H

ID = "C02"
LEVEL = "exploration"
TECHNIQUE = "bounded exhaustive enumeration (deviation lattice incl. measurement overrides) against an mpmath reference likelihood"
PRELOAD = None
LEVEL_TEXT = ("Every spec with <=k deviations (modifier attachments and measurement-level overrides) is evaluated with the real Model.logpdf, "
              "mainlogpdf, constraint_logpdf, pdf, expected_auxdata on integer, non-integer and zero-containing main data and on two auxiliary "
              "datasets that are independent of the parameters, and compared with a by-name mpmath likelihood; a mis-paired or dropped "
              "constraint term moves the value by O(0.1), 10 orders above tolerance.")
LEVEL_NOTE = "trusted: mc/ref/histfactory.py, mpmath; bounds: <=3 deviations (numpy), fewer on other backends; fixed lattices of points/data"


def plan(tier, seed):
    bk = {
        "numpy": 2 if tier == "quick" else 3,
        "numpy32": 1,
        "pytorch": 1 if tier == "quick" else 2,
        "jax": 1 if tier == "quick" else 2,
        "tensorflow": 1 if tier == "quick" else 2,
    }
    cases = []
    for r in range(4):
        for be, kb in bk.items():
            if r <= kb:
                for c in S.all_cases(r, exact=True):
                    cases.append({"skel": c["skel"], "combo": c["combo"], "backend": be, "seed": seed, "ov": None})
            # overrides: one override = one deviation on top of r-1 attachments
            if 1 <= r <= kb:
                for c in S.all_cases(r - 1, exact=True):
                    _, spec = S.build(c["skel"], tuple(c["combo"]))
                    for oi, item in enumerate(S.override_menu(spec)):
                        if item[2] in ("auxdata", "sigmas", "factors"):
                            cases.append({"skel": c["skel"], "combo": c["combo"], "backend": be, "seed": seed, "ov": oi})
    # curated 3-deviation specs (quick tier; thorough covers all of k=3): one Gaussian-constrained scalar (normsys/histosys/lumi) + one shapesys + one staterror,
    # i.e. Gaussian and Poisson auxiliary entries interleaved in the auxiliary layout
    if bk["numpy"] < 3:
        for sk in ("B1", "B2"):
            m = S.menu(sk)
            fam = lambda pref: [i for i, it in enumerate(m) if it[0].split("@")[0].split(":")[0] in pref]
            for a in fam(("normsys", "histosys", "lumi")):
                for b in fam(("shapesys", "shapesys0")):
                    for c_ in fam(("staterror", "staterror0nom")):
                        combo = tuple(sorted((a, b, c_)))
                        if S.build(sk, combo) is not None:
                            cases.append({"skel": sk, "combo": list(combo), "backend": "numpy", "seed": seed, "ov": None})
    return dict(
        cases=cases,
        chunk=48,
        rule="spec = skeleton + <=k deviations (modifier attachments; one of them may be a measurement override of auxdata/sigmas/factors "
             "of any constrained parameter present); per spec: points P1,P2 x main data {integer, non-integer, zero-containing} x 2 auxiliary "
             "datasets independent of the parameters x {logpdf, mainlogpdf, constraint_logpdf, sum identity, pdf=exp, expected_auxdata, "
             "config.auxdata}; non-trivial = spec has at least one constraint term; distinct = distinct (spec, override, backend)",
        alphabet={"skeletons": list(S.SKEL), "backends": list(bk), "data": ["int", "frac", "zero"], "aux_sets": 2},
        bound={"deviations_per_backend": bk},
        trusted_base=["mc/ref/histfactory.py (mpmath, 40 digits)"],
        assumptions=["inputs handed over as float64 arrays"],
    )


def eval_case(case):
    import pyhf

    be = case["backend"]
    eps = C.eps_of(be)
    K = 64
    labels, spec = S.build(case["skel"], tuple(case["combo"]))
    if case.get("ov") is not None:
        item = S.override_menu(spec)[case["ov"]]
        spec = S.apply_override(spec, item)
        labels = labels + [item[0]]
    ps = H.paramsets(spec)
    issues, ncmp, dig = [], 0, []
    nontrivial = any(d["constraint"] for d in ps.values())
    C.set_backend(be)
    try:
        ctx0 = dict(labels=labels, backend=be)
        try:
            m = pyhf.Model(spec, poi_name="mu")
        except Exception as e:
            return dict(issues=[C.issue(f"C02:build:{type(e).__name__}", f"well-formed spec refused: {e}"[:300], **ctx0)], nontrivial=False,
                        outcome="build-fail", comparisons=0)
        cfg = m.config
        # nominal auxiliary data, by name
        off = 0
        for name in cfg.auxdata_order:
            n = ps[name]["n"] if name in ps else None
            if n is None:
                issues.append(C.issue("C02:auxdata_order:unknown", f"{name} in auxdata_order is not a constrained parameter of the spec", **ctx0))
                break
            got = list(cfg.auxdata[off:off + n])
            off += n
            ref = [float(x) for x in ps[name]["auxdata"]]
            ncmp += 1
            if not np.allclose(got, ref, rtol=8 * C.EPS64, atol=0):
                issues.append(C.issue("C02:config.auxdata", f"nominal auxdata of {name}: {got} expected {ref}", **ctx0))
        if sorted(cfg.auxdata_order) != sorted(n for n, d in ps.items() if d["constraint"]):
            issues.append(C.issue("C02:auxdata_order:set", f"auxdata_order {cfg.auxdata_order} != constrained parameters of the spec", **ctx0))
            return dict(issues=issues, nontrivial=nontrivial, outcome="bad-order", comparisons=ncmp)
        pts = L.points(spec, case.get("seed", 0), ps, boundary=False)[1:3]
        # measurement-level settings reach the model whichever way the measurement is selected (by name or by index)
        if case.get("ov") is not None:
            base_labels, base_spec = S.build(case["skel"], tuple(case["combo"]))
            wsd = S.workspace(base_spec, measurements=1)
            wsd["measurements"].append({"name": "with_override", "config": {"poi": "mu", "parameters": [dict(p_) for p_ in spec["parameters"]]}})
            ws = pyhf.Workspace(wsd)
            vals = pts[0][1]
            main = L.main_data(spec, "frac", 0)
            for sel, sp_, kw in (("index=1", spec, dict(measurement_index=1)), ("name", spec, dict(measurement_name="with_override")), ("index=0", base_spec, dict(measurement_index=0))):
                try:
                    mw = ws.model(**kw)
                except Exception as e:
                    issues.append(C.issue(f"C02:measurement:{type(e).__name__}", f"Workspace.model({kw}) raised {e}"[:200], **ctx0))
                    continue
                psx = H.paramsets(sp_)
                aux = L.aux_data(sp_, 1, psx)
                dvx = L.data_vector(mw.config, main, aux)
                tmx = []
                refx = H.logpdf(sp_, vals, main, aux, ps=psx, terms=tmx)
                gotx = float(C.tolist(mw.logpdf(C.tens(L.vector(mw.config, vals)), C.tens(dvx)))[0])
                ncmp += 1
                if not abs(gotx - float(refx)) <= K * eps * (float(sum(tmx)) + 1):
                    issues.append(C.issue("C02:measurement_selection", f"model of the measurement selected by {sel}: logpdf {gotx!r}, the template with that measurement's settings gives {float(refx)!r}", **ctx0))
        # batched or not: three distinct rows of a batch-3 model against the template (full batch matrix: C10)
        if len(case["combo"]) <= 1 and case.get("ov") is None:
            mb = pyhf.Model(spec, poi_name="mu", batch_size=3)
            rows = [pts[0][1], pts[1][1], {n: ([-x for x in v] if ps[n]["kind"] == "alpha" else [x * 0.93 + 0.05 for x in v]) for n, v in pts[1][1].items()}]
            main = L.main_data(spec, "frac", 0)
            aux = L.aux_data(spec, 0, ps)
            dv = L.data_vector(mb.config, main, aux)
            got = C.tolist(mb.logpdf(C.tens([L.vector(mb.config, r) for r in rows]), C.tens([dv, dv, dv])))
            for ri, r in enumerate(rows):
                tmx = []
                refx = H.logpdf(spec, r, main, aux, ps=ps, terms=tmx)
                ncmp += 1
                if not abs(float(got[ri]) - float(refx)) <= K * eps * (float(sum(tmx)) + 1):
                    issues.append(C.issue("C02:batched_logpdf", f"row {ri} of a batch-3 model: logpdf {float(got[ri])!r}, template {float(refx)!r}", **ctx0))
        for pl, vals in pts:
            pv = C.tens(L.vector(cfg, vals))
            # expected_auxdata
            if not cfg.auxdata_order:
                ea = np.zeros(0)  # Model.expected_auxdata is undefined (IndexError) without constraint terms; not part of the property
            else:
                ea = C.tolist(m.expected_auxdata(pv))
            refa = H.expected_aux(spec, vals, ps)
            ra = [float(x) for n in cfg.auxdata_order for x in refa[n]]
            ncmp += 1
            if ea.shape != (len(ra),) or not np.allclose(ea, ra, rtol=K * eps, atol=0):
                issues.append(C.issue("C02:expected_auxdata", f"expected_auxdata {ea.tolist()} expected {ra}", **dict(ctx0, point=pl)))
            for dk in ("int", "frac", "zero"):
                main = L.main_data(spec, dk, case.get("seed", 0))
                for which in (0, 1):
                    aux = L.aux_data(spec, which, ps)
                    ctx = dict(ctx0, point=pl, data=dk, aux=which)
                    dv = L.data_vector(cfg, main, aux)
                    dt = C.tens(dv)
                    tm, tc = [], []
                    rmain = H.main_logpdf(spec, vals, main, terms=tm)
                    rcon = H.constraint_logpdf(spec, vals, aux, ps, terms=tc)
                    mag = float(tm[0] + tc[0]) + 1.0
                    tol = K * eps * mag
                    try:
                        lp = C.tolist(m.logpdf(pv, dt))
                        lm = C.tolist(m.mainlogpdf(dt[: cfg.nmaindata], pv))
                        # Model.constraint_logpdf is undefined (IndexError) for a model without constraint terms
                        lc = C.tolist(m.constraint_logpdf(dt[cfg.nmaindata:], pv)) if cfg.auxdata_order else np.zeros(1)
                        pd = C.tolist(m.pdf(pv, dt))
                    except Exception as e:
                        issues.append(C.issue(f"C02:eval:{type(e).__name__}", f"evaluation raised {e}"[:300], **ctx))
                        continue
                    ncmp += 5
                    if lp.shape != (1,):
                        issues.append(C.issue("C02:logpdf:shape", f"logpdf shape {lp.shape}", **ctx))
                        continue
                    lp0, lm0, lc0 = float(lp[0]), float(np.ravel(lm)[0]), float(np.ravel(lc)[0])
                    dig.append(round(lp0, 5))
                    if not abs(lm0 - float(rmain)) <= K * eps * (float(tm[0]) + 1):
                        issues.append(C.issue("C02:mainlogpdf", f"mainlogpdf {lm0!r} expected {float(rmain)!r}", **ctx))
                    if not abs(lc0 - float(rcon)) <= K * eps * (float(tc[0]) + 1):
                        issues.append(C.issue("C02:constraint_logpdf", f"constraint_logpdf {lc0!r} expected {float(rcon)!r}", **ctx))
                    if not abs(lp0 - float(rmain + rcon)) <= tol:
                        issues.append(C.issue("C02:logpdf", f"logpdf {lp0!r} expected {float(rmain + rcon)!r} (tol {tol:.3g})", **ctx))
                    if not abs(lp0 - (lm0 + lc0)) <= 8 * eps * mag:
                        issues.append(C.issue("C02:sum_identity", f"logpdf {lp0!r} != main {lm0!r} + constraint {lc0!r}", **ctx))
                    p0 = float(np.ravel(pd)[0])
                    ex = math.exp(lp0) if lp0 > -700 else 0.0
                    if not abs(p0 - ex) <= 16 * eps * (1 + abs(lp0)) * ex + (1e-300 if not be.endswith("32") else 1e-37):
                        issues.append(C.issue("C02:pdf_exp", f"pdf {p0!r} != exp(logpdf) {ex!r}", **ctx))
    finally:
        C.reset_backend()
    return dict(issues=issues, nontrivial=nontrivial, outcome=digest(dig), comparisons=ncmp)
