"""C16 — workspace combine, prune, rename and sort act on the likelihood as advertised (DESIGN.md 4/C16)."""
from __future__ import annotations

import copy
import itertools
import json

import numpy as np

from mc.checks import common as C
from mc.core.run import canon, digest
from mc.gen import lattices as L
from mc.ref import histfactory as H
from mc.ref import workspace as RW

ID = "C16"
LEVEL = "model_checking"
TECHNIQUE = ("explicit-state breadth-first search over workspace operation sequences on the real Workspace API (states = canonical JSON), every transition compared "
             "with a list-of-dicts reference model and the reference likelihood; all ordered pairs x 4 joins x merge on/off for combine")
PRELOAD = None
LEVEL_TEXT = ("Pairs: all ordered pairs of an 11-workspace alphabet (disjoint / overlapping-identical / overlapping-conflicting channels, observations, measurements; "
              "shared and private parameters; different POI; different version) x 4 joins x merge on/off against the reference join facts and the reference "
              "likelihood. Histories: BFS to depth 2 (3 thorough) over {combine, prune(each item), rename(each name and swaps), sorted}; every transition calls "
              "the real API on a workspace rebuilt from the state's JSON and is compared with the reference model; rename inverse, sort idempotence and "
              "canonicity under list permutations, schema validity and input immutability are checked on every transition.")
LEVEL_NOTE = "trusted: mc/ref/workspace.py (written from the docstrings), mc/ref/histfactory.py; numpy backend; states are canonical JSON because every operation is a function of the JSON only"


def W(ch, nom, meas="m", poi="mu", pars=None, obs=None, shared="n1", lumi=False, version="1.0.0", extra_channel=None, sample_suffix="", two_types=False):
    mods_s = [{"name": poi, "type": "normfactor", "data": None}]
    mods_b = [{"name": shared, "type": "normsys", "data": {"lo": 0.9, "hi": 1.1}}, {"name": f"st_{ch}", "type": "staterror", "data": [round(0.1 * x, 3) for x in nom]}]
    if two_types:  # one name under two modifier types on one sample, listed in non-(name, type) order
        mods_b.insert(1, {"name": shared, "type": "histosys", "data": {"lo_data": [round(0.95 * x, 3) for x in nom], "hi_data": [round(1.08 * x, 3) for x in nom]}})
    if lumi:
        mods_b.append({"name": "lumi", "type": "lumi", "data": None})
    pars = list(pars or [])
    if lumi:
        pars.append({"name": "lumi", "auxdata": [1.0], "sigmas": [0.02], "bounds": [[0.5, 1.5]], "inits": [1.0]})
    chans = [{"name": ch, "samples": [{"name": "sig" + sample_suffix, "data": [round(x * 0.1, 3) for x in nom], "modifiers": mods_s},
                                      {"name": "bkg" + sample_suffix, "data": list(nom), "modifiers": mods_b}]}]
    observations = [{"name": ch, "data": obs or [x + 1 for x in nom]}]
    if extra_channel:
        en, enom = extra_channel
        chans.append({"name": en, "samples": [{"name": "bkg", "data": list(enom), "modifiers": [{"name": f"sf_{en}", "type": "shapefactor", "data": None},
                                                                                                 {"name": shared, "type": "normsys", "data": {"lo": 0.95, "hi": 1.07}}]}]})
        observations.append({"name": en, "data": [x + 2 for x in enom]})
    return {"channels": chans, "observations": observations, "measurements": [{"name": meas, "config": {"poi": poi, "parameters": pars}}], "version": version}


def alphabet():
    mu_a = {"name": "mu", "bounds": [[0, 7]], "inits": [1.0]}
    mu_b = {"name": "mu", "bounds": [[0, 5]], "inits": [1.0]}
    return {
        "A": W("a", [10.0, 20.0]),
        "B": W("b", [30.0, 40.0, 50.0], extra_channel=("z", [8.0, 9.0]), two_types=True),
        "Aother": W("a", [12.0, 22.0], sample_suffix="2", obs=[11.0, 21.0]),  # channel a again, but with different samples (merge_channels)
        "Asame+C": W("a", [10.0, 20.0], extra_channel=("c", [5.0, 6.0])),
        "Aconf": W("a", [11.0, 20.0]),
        "Dpoi": W("d", [12.0, 14.0], poi="k"),
        "Em2lumi": W("e", [15.0, 25.0], meas="m2", lumi=True, shared="n2"),
        "Fver": W("f", [7.0, 9.0], version="1.1.0"),
        "Gpar": W("g", [21.0, 23.0], pars=[mu_a]),
        "Hpar": W("h", [31.0, 33.0], pars=[mu_b]),
        "Ipar2": dict(W("i", [41.0, 43.0], pars=[{"name": "n1", "inits": [0.1], "bounds": [[-4.0, 4.0]]}]),
                      measurements=[{"name": "m", "config": {"poi": "mu", "parameters": [{"name": "n1", "inits": [0.1], "bounds": [[-4.0, 4.0]]}]}},
                                    {"name": "zz_last", "config": {"poi": "n1", "parameters": []}}]),
    }


def plan(tier, seed):
    names = list(alphabet())
    cases = []
    for l, r in itertools.product(names, repeat=2):
        cases.append({"kind": "pair", "left": l, "right": r})
    depth = 2 if tier == "quick" else 3
    for root in ("A", "B", "Em2lumi", "Gpar"):
        cases.append({"kind": "bfs", "root": root, "depth": depth})
    return dict(
        cases=cases, chunk=1,
        rule="pair case = ordered pair of the 11-workspace alphabet x {none, outer, left outer, right outer} x merge_channels on/off; bfs case = breadth-first search from a "
             "root workspace over {combine with A/B/Em2lumi (none, outer), prune each single channel/sample/modifier/modifier type/measurement, rename each single "
             "name and swaps, sorted} to the stated depth, deduplicated on canonical JSON; non-trivial = case contains accepted and refused operations; distinct = distinct case",
        alphabet={"workspaces": names, "joins": ["none", "outer", "left outer", "right outer"]},
        bound={"bfs_depth": depth},
        trusted_base=["mc/ref/workspace.py", "mc/ref/histfactory.py"],
    )


def eval_case(case):
    C.set_backend("numpy")
    return pair(case) if case["kind"] == "pair" else bfs(case)


def spec_of(ws, meas_index=0):
    m = ws["measurements"][meas_index]
    return {"channels": copy.deepcopy(ws["channels"]), "parameters": copy.deepcopy(m["config"]["parameters"])}, m["config"]["poi"]


def ref_logpdf_parts(ws, meas_index=0, seed=0):
    """(main, constraint, pars-by-name, data pieces) from the reference interpreter for measurement `meas_index`."""
    spec, poi = spec_of(ws, meas_index)
    ps = H.paramsets(spec)
    vals = L.points(spec, seed, ps, boundary=False)[1][1]
    main = {o["name"]: [float(x) for x in o["data"]] for o in ws["observations"]}
    aux = L.aux_data(spec, 0, ps)
    return spec, poi, ps, vals, main, aux


def model_logpdf(wsobj, vals, main, aux, meas=None):
    import pyhf

    m = wsobj.model(measurement_name=meas) if meas else wsobj.model()
    cfg = m.config
    pv = L.vector(cfg, vals)
    dv = L.data_vector(cfg, main, aux)
    return float(m.logpdf(pv, dv)[0]), float(np.ravel(m.mainlogpdf(np.array(dv[: cfg.nmaindata]), np.array(pv)))[0]), m


def pair(case):
    import pyhf

    al = alphabet()
    lw, rw = al[case["left"]], al[case["right"]]
    issues, ncmp = [], 0
    nacc = nref = 0
    for join in ("none", "outer", "left outer", "right outer"):
        for merge in (False, True):
            ctx = dict(left=case["left"], right=case["right"], join=join, merge=merge)
            Lw, Rw_ = pyhf.Workspace(copy.deepcopy(lw), validate=False), pyhf.Workspace(copy.deepcopy(rw), validate=False)
            verdict, facts = RW.combine_facts(lw, rw, join, merge)
            try:
                got = pyhf.Workspace.combine(Lw, Rw_, join=join, merge_channels=merge)
                out = "ok"
            except pyhf.exceptions.InvalidWorkspaceOperation as e:
                out, got = "refuse", None
            except ValueError as e:
                out, got = "valueerror", None
            except pyhf.exceptions.InvalidSpecification:
                out, got = "invalid", None
            except pyhf.exceptions.SchemaNotFound:
                continue  # both sides carry the (unknown) second schema version: nothing to validate the result against; outside the property
            except Exception as e:
                issues.append(C.issue(f"C16:combine:{type(e).__name__}", f"combine raised {type(e).__name__}: {e}"[:200], **ctx))
                continue
            ncmp += 2
            if json.loads(json.dumps(Lw)) != lw or json.loads(json.dumps(Rw_)) != rw:
                issues.append(C.issue("C16:combine:inputs_modified", "combine modified one of its inputs", **ctx))
            if verdict in ("refuse", "valueerror"):
                nref += 1
                if out == "ok":
                    issues.append(C.issue(f"C16:combine:accepted:{facts}", f"incompatible inputs ({facts}) were combined", **ctx))
                continue
            if out != "ok":
                # a result that is not a valid workspace may legitimately be refused (e.g. two measurements of one name under an unsafe join)
                if out == "invalid" and join in ("left outer", "right outer"):
                    continue
                issues.append(C.issue(f"C16:combine:refused:{join}", f"compatible inputs were refused ({out})", **ctx))
                continue
            nacc += 1
            res = json.loads(json.dumps(got))
            try:
                pyhf.schema.validate(res, "workspace.json", version=res["version"])
            except Exception as e:
                issues.append(C.issue("C16:combine:schema", f"combined workspace is not schema-valid: {e}"[:160], **ctx))
            for key in ("channels", "observations", "measurements"):
                have = RW.by_name(res[key])
                if len(have) != len(res[key]):
                    issues.append(C.issue(f"C16:combine:duplicate_{key}", f"combined workspace lists a {key[:-1]} name twice", **ctx))
                for n, want in facts[key].items():
                    ncmp += 1
                    if n not in have:
                        issues.append(C.issue(f"C16:combine:missing_{key}", f"{key[:-1]} {n} is missing from the combination", **ctx))
                    elif want is not None:
                        if key == "measurements" and isinstance(want["config"]["parameters"], dict):
                            gp = RW.by_name(have[n]["config"]["parameters"])
                            if have[n]["config"]["poi"] != want["config"]["poi"] or gp != want["config"]["parameters"]:
                                issues.append(C.issue("C16:combine:measurement_merge", f"merged measurement {n} differs from the union of the parameter configs", **ctx))
                        elif have[n] != want:
                            issues.append(C.issue(f"C16:combine:changed_{key}", f"{key[:-1]} {n} was changed by the combination", **ctx))
                extra = set(have) - set(facts[key])
                if extra:
                    issues.append(C.issue(f"C16:combine:extra_{key}", f"unexpected {key} {sorted(extra)}", **ctx))
            if merge:
                # union by name, no mixing inside a sample
                lc, rc = RW.by_name(lw["channels"]), RW.by_name(rw["channels"])
                for n in set(lc) & set(rc):
                    ls, rs = RW.by_name(lc[n]["samples"]), RW.by_name(rc[n]["samples"])
                    gs = RW.by_name(RW.by_name(res["channels"])[n]["samples"])
                    ncmp += 1
                    if set(gs) != set(ls) | set(rs) or any(gs[s] not in (ls.get(s), rs.get(s)) for s in gs):
                        issues.append(C.issue("C16:combine:merge_channels", f"merged channel {n}: samples are not the union by name of unmodified samples", **ctx))
            # likelihood: disjoint channels -> main likelihoods multiply, each constrained parameter once
            if not (set(RW.names(lw["channels"])) & set(RW.names(rw["channels"]))) and len(res["measurements"]) >= 1:
                for mi, meas in enumerate(res["measurements"]):
                    try:
                        spec, poi, ps, vals, main, aux = ref_logpdf_parts(res, mi)
                        lp, lmain, m = model_logpdf(got, vals, main, aux, meas["name"])
                    except Exception as e:
                        continue  # e.g. a measurement that configures a lumi parameter only for one side cannot build; not a combine fact
                    tm = []
                    ref = H.logpdf(spec, vals, main, aux, ps=ps, terms=tm)
                    ncmp += 2
                    if not abs(lp - float(ref)) <= 64 * C.EPS64 * (float(sum(tm)) + 1):
                        issues.append(C.issue("C16:combine:likelihood", f"combined logpdf {lp!r} != reference on the union {float(ref)!r}", **dict(ctx, measurement=meas["name"])))
                    # product of the two main likelihoods, parameters identified by name
                    parts = 0.0
                    okp = True
                    for side in (lw, rw):
                        sspec = {"channels": side["channels"], "parameters": []}
                        try:
                            parts += float(H.main_logpdf(sspec, vals, {c["name"]: main[c["name"]] for c in side["channels"]}))
                        except KeyError:
                            okp = False
                    if okp and not abs(lmain - parts) <= 64 * C.EPS64 * (float(tm[0]) + 1):
                        issues.append(C.issue("C16:combine:main_product", f"main log-likelihood {lmain!r} != sum of the two sides {parts!r}", **dict(ctx, measurement=meas["name"])))
    return dict(issues=issues, nontrivial=nacc > 0 and nref > 0, outcome=digest([case["left"], case["right"], nacc, nref]), comparisons=ncmp)


def operations(ws):
    al = alphabet()
    ops = []
    for partner in ("A", "B", "Em2lumi"):
        for join in ("none", "outer"):
            ops.append(("combine", partner, join))
    chans = RW.names(ws["channels"])
    samp = sorted({s["name"] for c in ws["channels"] for s in c["samples"]})
    mods = sorted({n for n, _ in RW.modifiers_of(ws)})
    types = sorted({t for _, t in RW.modifiers_of(ws)})
    meas = RW.names(ws["measurements"])
    # a renaming whose target name already exists merges two items: not a relabelling, outside the property (inverse cannot exist)
    for c in chans:
        ops.append(("prune", "channels", c))
        if c + "_r" not in chans:
            ops.append(("rename", "channels", c, c + "_r"))
    for s in samp:
        ops.append(("prune", "samples", s))
        if s + "_r" not in samp:
            ops.append(("rename", "samples", s, s + "_r"))
    for m in mods:
        ops.append(("prune", "modifiers", m))
        if m + "_r" not in mods:
            ops.append(("rename", "modifiers", m, m + "_r"))
    for t in types:
        ops.append(("prune", "modifier_types", t))
    for m in meas:
        ops.append(("prune", "measurements", m))
        if m + "_r" not in meas:
            ops.append(("rename", "measurements", m, m + "_r"))
    if len(chans) >= 2:
        ops.append(("swap", "channels", chans[0], chans[1]))
    if len(samp) >= 2:
        ops.append(("swap", "samples", samp[0], samp[1]))
    # renamings whose new names are the *old* names of other configured parameters (swap, chain onto a fresh name, identity): still
    # bijective relabellings, and the measurement configurations must follow their parameters (seed C16-s7)
    conf = sorted({p["name"] for m in ws["measurements"] for p in m["config"].get("parameters", [])} & set(mods))
    conf = (conf + [m for m in mods if m not in conf])[:3]
    for i in range(len(conf)):
        for j in range(i + 1, len(conf)):
            ops.append(("swap", "modifiers", conf[i], conf[j]))
    if len(conf) >= 2 and conf[1] + "_r" not in mods:
        ops.append(("chain", "modifiers", conf[0], conf[1], conf[1] + "_r"))
    if conf:
        ops.append(("rename", "modifiers", conf[0], conf[0]))
    ops.append(("prune", "channels", "nope"))
    ops.append(("rename", "modifiers", "nope", "x"))
    ops.append(("sorted",))
    return ops


def bfs(case):
    import pyhf

    al = alphabet()
    root = al[case["root"]]
    issues, ncmp = [], 0
    seen = {canon(root)}
    frontier = [(root, [])]
    states, trans, refused = 1, 0, 0
    likelihood_checked = 0

    def check_result(res, ref, ctx, lk=True):
        nonlocal ncmp, likelihood_checked
        ncmp += 2
        if res != ref:
            issues.append(C.issue(f"C16:{ctx['op'][0]}:result", f"{ctx['op']}: result differs from the reference model", **ctx))
            return
        try:
            pyhf.schema.validate(copy.deepcopy(res), "workspace.json", version=res["version"])
        except Exception as e:
            issues.append(C.issue(f"C16:{ctx['op'][0]}:schema", f"result of {ctx['op']} is not schema-valid", **ctx))

    def lk_equal(a, b, ctx, rename_map=None):
        """same likelihood: build both models for the first measurement and compare logpdf at a by-name point (bit-equal unless renamed)."""
        nonlocal ncmp, likelihood_checked
        try:
            spec, poi, ps, vals, main, aux = ref_logpdf_parts(b, 0)
            lb, _, mb = model_logpdf(pyhf.Workspace(copy.deepcopy(b)), vals, main, aux)
        except Exception:
            return
        tm = []
        ref = H.logpdf(spec, vals, main, aux, ps=ps, terms=tm)
        ncmp += 1
        likelihood_checked += 1
        if not abs(lb - float(ref)) <= 64 * C.EPS64 * (float(sum(tm)) + 1):
            issues.append(C.issue(f"C16:{ctx['op'][0]}:likelihood", f"{ctx['op']}: logpdf of the result {lb!r} != reference interpreter on the reference result {float(ref)!r}", **ctx))

    for depth in range(case["depth"]):
        nxt = []
        for ws, hist in frontier:
            for op in operations(ws):
                trans += 1
                ctx = dict(root=case["root"], history=[list(h) for h in hist], op=list(op))
                wobj = pyhf.Workspace(copy.deepcopy(ws))
                before = json.loads(json.dumps(wobj))
                try:
                    if op[0] == "combine":
                        partner = al[op[1]]
                        verdict, facts = RW.combine_facts(ws, partner, op[2], False)
                        try:
                            got = pyhf.Workspace.combine(wobj, pyhf.Workspace(copy.deepcopy(partner)), join=op[2])
                            res = json.loads(json.dumps(got))
                            if verdict != "ok":
                                issues.append(C.issue("C16:combine:accepted:" + str(facts), f"incompatible combine accepted in history", **ctx))
                                continue
                            for key in ("channels", "observations", "measurements"):
                                have = RW.by_name(res[key])
                                for n, want in facts[key].items():
                                    ncmp += 1
                                    if n not in have or (want is not None and not isinstance(want["config"]["parameters"] if key == "measurements" else None, dict) and have[n] != want):
                                        issues.append(C.issue(f"C16:combine:changed_{key}", f"{key[:-1]} {n} missing or changed", **ctx))
                            lk_equal(ws, res, ctx)
                        except pyhf.exceptions.InvalidWorkspaceOperation:
                            refused += 1
                            if verdict == "ok":
                                issues.append(C.issue("C16:combine:refused:" + op[2], "compatible combine refused in history", **ctx))
                            continue
                    elif op[0] in ("prune", "rename", "swap", "chain"):
                        if op[0] == "prune":
                            kw = {op[1]: [op[2]]}
                            fn_ref = lambda: RW.prune(ws, **kw)
                            fn = lambda: wobj.prune(**kw)
                        elif op[0] == "rename":
                            kw = {op[1]: {op[2]: op[3]}}
                            fn_ref = lambda: RW.rename(ws, **kw)
                            fn = lambda: wobj.rename(**kw)
                        elif op[0] == "chain":
                            kw = {op[1]: {op[2]: op[3], op[3]: op[4]}}
                            fn_ref = lambda: RW.rename(ws, **kw)
                            fn = lambda: wobj.rename(**kw)
                        else:
                            kw = {op[1]: {op[2]: op[3], op[3]: op[2]}}
                            fn_ref = lambda: RW.rename(ws, **kw)
                            fn = lambda: wobj.rename(**kw)
                        try:
                            ref = fn_ref()
                            ref_ok = True
                        except RW.Refused:
                            ref_ok = False
                        try:
                            got = fn()
                            res = json.loads(json.dumps(got))
                            got_ok = True
                        except pyhf.exceptions.InvalidWorkspaceOperation:
                            got_ok = False
                        except pyhf.exceptions.InvalidSpecification:
                            got_ok = None  # result not a valid workspace (e.g. last channel pruned)
                        ncmp += 1
                        if got_ok is None:
                            try:
                                pyhf.schema.validate(copy.deepcopy(ref), "workspace.json", version=ref["version"])
                                issues.append(C.issue(f"C16:{op[0]}:refused_valid", f"{op}: a valid result was refused as invalid", **ctx))
                            except Exception:
                                refused += 1
                            continue
                        if got_ok != ref_ok:
                            issues.append(C.issue(f"C16:{op[0]}:{'accepted_unknown' if got_ok else 'refused_known'}", f"{op}: pyhf {'accepts' if got_ok else 'refuses'}, reference "
                                                  f"{'accepts' if ref_ok else 'refuses'}", **ctx))
                            continue
                        if not got_ok:
                            refused += 1
                            continue
                        check_result(res, ref, ctx)
                        lk_equal(ws, res, ctx)
                        if op[0] in ("rename", "swap", "chain"):
                            inv = {op[1]: ({op[3]: op[2]} if op[0] == "rename" else {op[3]: op[2], op[4]: op[3]} if op[0] == "chain" else {op[2]: op[3], op[3]: op[2]})}
                            back = json.loads(json.dumps(got.rename(**inv)))
                            ncmp += 1
                            if back != {k: ws[k] for k in back}:
                                issues.append(C.issue("C16:rename:inverse", f"{op} followed by the inverse renaming does not restore the workspace", **ctx))
                    else:  # sorted
                        got = pyhf.Workspace.sorted(wobj)
                        res = json.loads(json.dumps(got))
                        check_result(res, RW.sort(ws), ctx)
                        again = json.loads(json.dumps(pyhf.Workspace.sorted(got)))
                        ncmp += 2
                        if again != res:
                            issues.append(C.issue("C16:sorted:idempotent", "sorting twice differs from sorting once", **ctx))
                        # canonical under permutation of the input lists
                        perm = copy.deepcopy(ws)
                        perm["channels"].reverse()
                        perm["observations"].reverse()
                        perm["measurements"].reverse()
                        for c in perm["channels"]:
                            c["samples"].reverse()
                            for s in c["samples"]:
                                s["modifiers"].reverse()
                        for m_ in perm["measurements"]:
                            m_["config"]["parameters"].reverse()
                        res2 = json.loads(json.dumps(pyhf.Workspace.sorted(pyhf.Workspace(perm))))
                        if res2 != res:
                            issues.append(C.issue("C16:sorted:canonical", "sorted result depends on the listing order of the input", **ctx))
                        # likelihood-preserving (bit-equal: same model)
                        try:
                            spec, poi, ps, vals, main, aux = ref_logpdf_parts(ws, 0)
                            l0, _, _ = model_logpdf(pyhf.Workspace(copy.deepcopy(ws)), vals, main, aux)
                            l1, _, _ = model_logpdf(got, vals, main, aux)
                            ncmp += 1
                            if l0 != l1:
                                issues.append(C.issue("C16:sorted:likelihood", f"sorting changes the logpdf {l0!r} -> {l1!r}", **ctx))
                        except (pyhf.exceptions.InvalidModel, AssertionError, KeyError):
                            pass  # model not buildable for this measurement, or a state outside the reference interpreter's domain (one staterror name in two channels)
                except Exception as e:
                    issues.append(C.issue(f"C16:{op[0]}:{type(e).__name__}", f"{op} raised {type(e).__name__}: {e}"[:200], **ctx))
                    continue
                if json.loads(json.dumps(wobj)) != before:
                    issues.append(C.issue(f"C16:{op[0]}:input_modified", f"{op} modified its input workspace", **ctx))
                k = canon(res)
                if k not in seen:
                    seen.add(k)
                    states += 1
                    nxt.append((res, hist + [op]))
        frontier = nxt
    return dict(issues=issues, nontrivial=refused > 0 and states > 1, outcome=digest([case["root"], states, trans, refused]), comparisons=ncmp, trans=trans,
                extra={"states": states, "likelihood_checked": likelihood_checked})


def finalize(results, plan, cases):
    st = sum((r.get("extra") or {}).get("states", 0) for r in results)
    tr = sum(r.get("trans", 0) for r in results)
    return {"states": max(st, 1), "transitions": max(tr, 1), "traces_validated_against_impl": tr,
            "likelihood_comparisons_in_bfs": sum((r.get("extra") or {}).get("likelihood_checked", 0) for r in results),
            "samples": [{"history": [["rename", "channels", "a", "a_r"], ["prune", "modifiers", "n1"], ["sorted"]], "oracle": "reference list-of-dicts model + reference likelihood"}]}
