"""C04 — probability primitives equal the exact Poisson/Normal functions on every backend (DESIGN.md 4/C04)."""
from __future__ import annotations

import itertools

import mpmath as mp
import numpy as np

from mc.checks import common as C
from mc.core.run import digest

ID = "C04"
LEVEL = "exploration"
TECHNIQUE = "exhaustive argument lattice (extremes, limits, floating-point neighbours) on all 8 backend/precision pairs against 50-digit mpmath"
PRELOAD = None
LEVEL_TEXT = ("The whole declared argument lattice (counts 0..1e8 integer and real, rates 0, denormal .. 1e8, z up to +-38, sigma over 20 orders of "
              "magnitude) is evaluated in one vectorised call per function, distribution object and backend/precision pair and compared with "
              "50-digit mpmath with a condition-aware tolerance (K*eps*sum|terms|).")
LEVEL_NOTE = "trusted: mpmath; arguments between lattice points are not covered; 32b: oracle evaluated on the float32-rounded arguments"

mp.mp.dps = 50
M = mp.mpf
FUNCS = ["poisson_logpdf", "poisson", "normal_logpdf", "normal", "normal_cdf", "objects"]


def poisson_lattice(dtype):
    big = dtype == np.float64
    ns = [0, 1, 2, 5, 10, 1e2, 1e3, 1e4, 1e6] + ([1e8] if big else [1.6e7]) + [0.5, 3.7, 1e3 + 0.3] + ([1e6 + 0.5] if big else [])
    pairs = []
    for n in ns:
        lams = [0.0, float(np.nextafter(dtype(0), dtype(1))), 1e-300 if big else 1e-38, 1e-10, 0.1, 1.0, n * (1 - 1e-3), n * (1 + 1e-3), n * 0.9, n * 1.1,
                n, 2 * n, 1e8 if big else 1.6e7]
        for lam in lams:
            pairs.append((n, lam))
    arr = np.array(sorted(set(pairs)), dtype=dtype)
    return arr[:, 0], arr[:, 1]


def normal_lattice(dtype):
    big = dtype == np.float64
    zs = [0.0, 1e-10, -1e-10, 1, -1, 5, -5, 10, -10] + ([37, -37, 38, -38] if big else [12, -12])
    sig = [1e-10, 1e-5, 1.0, 1e5, 1e10]
    mus = [0.0, 1.0, -3.5, 1e6]
    xs, ms, ss = [], [], []
    for z, s, m in itertools.product(zs, sig, mus):
        xs.append(m + z * s)
        ms.append(m)
        ss.append(s)
    return np.array(xs, dtype=dtype), np.array(ms, dtype=dtype), np.array(ss, dtype=dtype)


def cdf_lattice(dtype):
    big = dtype == np.float64
    lim = 38.0 if big else 12.0
    xs = list(np.arange(-lim, lim + 0.125, 0.25))
    for b in (0.0, 1.0, -1.0):
        xs += [float(np.nextafter(dtype(b), dtype(-50))), float(np.nextafter(dtype(b), dtype(50)))]
    return np.array(sorted(set(xs)), dtype=dtype)


def ref_poisson_logpmf(n, lam):
    n, lam = M(float(n)), M(float(lam))
    if lam == 0:
        return (M(0) if n == 0 else -mp.inf), M(1)
    t = (abs(n * mp.log(lam)), lam, abs(mp.loggamma(n + 1)))
    return n * mp.log(lam) - lam - mp.loggamma(n + 1), sum(t) + 1


def ref_normal_logpdf(x, mu, sig):
    x, mu, sig = M(float(x)), M(float(mu)), M(float(sig))
    z = (x - mu) / sig
    cond = abs(x) / sig + abs(mu) / sig  # rounding of x - mu before the division
    return -mp.log(sig) - mp.log(2 * mp.pi) / 2 - z * z / 2, abs(mp.log(sig)) + z * z / 2 + 2, abs(z) * cond


def ref_cdf(x):
    return mp.ncdf(M(float(x)))


def plan(tier, seed):
    backends = ["numpy", "numpy32", "pytorch", "pytorch32", "jax", "jax32", "tensorflow", "tensorflow32"]
    cases = [{"func": f, "backend": be} for be in backends for f in FUNCS]
    n64, l64 = poisson_lattice(np.float64)
    return dict(
        cases=cases, chunk=1,
        rule="one case = (function family, backend/precision) evaluated on its whole argument lattice in one vectorised call: Poisson (n, lambda) "
             "pairs incl. lambda=0, denormal lambda, non-integer n, n up to 1e8; Normal (z, sigma, mu) grid with |z|<=38, sigma 1e-10..1e10; "
             "Phi on [-38,38] step 1/4 plus fp neighbours of 0, +-1; 'objects' = probability.Poisson/Normal/Independent.log_prob vs the functions; "
             "non-trivial: every case; distinct = distinct case",
        alphabet={"poisson_pairs_64b": int(len(n64)), "normal_points_64b": int(len(normal_lattice(np.float64)[0])), "cdf_points_64b": int(len(cdf_lattice(np.float64))),
                  "functions": FUNCS, "backends": backends},
        bound={"K": 64},
        trusted_base=["mpmath 50 digits"],
    )


def eval_case(case):
    import pyhf
    from pyhf import probability

    be, fn = case["backend"], case["func"]
    dtype = np.float32 if be.endswith("32") else np.float64
    eps = C.eps_of(be)
    K = 64
    tiny = float(np.finfo(dtype).tiny)
    tl = C.set_backend(be)
    issues, ncmp, dig = [], 0, []
    ctx = dict(func=fn, backend=be)

    def T(a):
        return tl.astensor(np.asarray(a, dtype=dtype))

    def out(t):
        return np.asarray(tl.tolist(t), dtype=np.float64)

    def cmp_log(name, got, ref, mag, args):
        nonlocal ncmp
        ncmp += 1
        if ref == -mp.inf:
            ok = got == -np.inf
        else:
            ok = abs(got - float(ref)) <= K * eps * float(mag)
        if not ok:
            issues.append(C.issue(f"C04:{name}", f"{name}{args}: got {got!r} expected {float(ref)!r} (tol {K * eps * float(mag):.3g})", **ctx))
            return False
        return True

    def cmp_lin(name, got, logref, mag, args):
        """non-log variant must be exp(log variant): relative error <= K*eps*mag (mag = condition of the exponent)"""
        nonlocal ncmp
        ncmp += 1
        ref = mp.exp(logref) if logref != -mp.inf else M(0)
        tol = K * eps * float(mag)
        if logref == -mp.inf:
            ok = got == 0.0
        else:
            hi = float(mp.exp(logref + tol)) if logref + tol < 700 else np.inf
            lo = float(mp.exp(logref - tol))
            ok = lo * (1 - 4 * eps) - tiny <= got <= hi * (1 + 4 * eps) + tiny
        if not ok:
            issues.append(C.issue(f"C04:{name}", f"{name}{args}: got {got!r} expected {float(ref)!r}", **ctx))
            return False
        return True

    try:
        if fn in ("poisson_logpdf", "poisson"):
            n, lam = poisson_lattice(dtype)
            got = out(getattr(tl, fn)(T(n), T(lam)))
            if got.shape != n.shape:
                issues.append(C.issue(f"C04:{fn}:shape", f"shape {got.shape}", **ctx))
            else:
                ftz = be.startswith(("jax", "tensorflow"))  # XLA/TF CPU kernels flush denormals to zero (hardware mode, not pyhf's doing)
                for g, a, b in zip(got, n, lam):
                    r, mag = ref_poisson_logpmf(a, b)
                    if ftz and 0 < float(b) < tiny and not (abs(g - float(r)) <= K * eps * float(mag) if fn == "poisson_logpdf" else False):
                        r, mag = ref_poisson_logpmf(a, 0.0)
                    okk = cmp_log(fn, g, r, mag, (float(a), float(b))) if fn == "poisson_logpdf" else cmp_lin(fn, g, r, mag, (float(a), float(b)))
                    if not okk and len(issues) > 6:
                        break
                dig.append(float(np.nansum(np.where(np.isfinite(got), got, 0))))
        elif fn in ("normal_logpdf", "normal"):
            x, mu, sg = normal_lattice(dtype)
            got = out(getattr(tl, fn)(T(x), T(mu), T(sg)))
            for g, a, b, c in zip(got, x, mu, sg):
                r, mag, cond = ref_normal_logpdf(a, b, c)
                if be.startswith("tensorflow"):
                    # tensorflow_probability standardises as x/sigma - mu/sigma (trusted library): the rounding of those two terms counts
                    mag = mag + cond
                okk = cmp_log(fn, g, r, mag, (float(a), float(b), float(c))) if fn == "normal_logpdf" else cmp_lin(fn, g, r, mag, (float(a), float(b), float(c)))
                if not okk and len(issues) > 6:
                    break
            dig.append(float(np.sum(got[np.isfinite(got)])))
        elif fn == "normal_cdf":
            xs = cdf_lattice(dtype)
            got = out(tl.normal_cdf(T(xs)))
            for g, a in zip(got, xs):
                r = ref_cdf(a)
                ncmp += 1
                if not abs(g - float(r)) <= K * eps * (1 + float(a) ** 2) * float(r) + tiny:
                    issues.append(C.issue("C04:normal_cdf", f"Phi({float(a)}) = {g!r} expected {float(r)!r} (rel err {abs(g - float(r)) / float(r):.3g})", **ctx))
                    if len(issues) > 6:
                        break
            # with location and scale
            mu, sg = dtype(1.5), dtype(2.5)
            got2 = out(tl.normal_cdf(T(xs), mu=T(mu), sigma=T(sg)))
            for g, a in zip(got2, xs):
                z = (M(float(a)) - M(float(mu))) / M(float(sg))
                r = mp.ncdf(z)
                ncmp += 1
                if not abs(g - float(r)) <= K * eps * (1 + float(z) ** 2 + abs(float(a))) * float(r) + tiny:
                    issues.append(C.issue("C04:normal_cdf:mu_sigma", f"Phi(({float(a)}-1.5)/2.5) = {g!r} expected {float(r)!r}", **ctx))
                    break
            # monotone and in [0,1]
            ncmp += 1
            if np.any(np.diff(got) < -4 * eps * got[1:]) or np.any(got < 0) or np.any(got > 1):
                issues.append(C.issue("C04:normal_cdf:monotone", f"Phi not monotone / outside [0,1] on the lattice: min diff {np.min(np.diff(got))!r} at "
                                      f"{float(xs[int(np.argmin(np.diff(got)))])} range [{got.min()!r},{got.max()!r}]", **ctx))
            dig.append(float(np.sum(got)))
        else:  # distribution objects evaluate to the same numbers as the functions
            n, lam = poisson_lattice(dtype)
            keep = lam >= tiny  # denormal rates: see the function cases (flush-to-zero backends)
            n, lam = n[keep], lam[keep]
            a = out(probability.Poisson(T(lam)).log_prob(T(n)))
            b = out(tl.poisson_logpdf(T(n), T(lam)))
            ncmp += 1
            if not np.array_equal(a, b):
                issues.append(C.issue("C04:objects:Poisson", "probability.Poisson.log_prob differs from tensorlib.poisson_logpdf", **ctx))
            x, mu, sg = normal_lattice(dtype)
            a = out(probability.Normal(T(mu), T(sg)).log_prob(T(x)))
            b = out(tl.normal_logpdf(T(x), T(mu), T(sg)))
            ncmp += 1
            if not np.array_equal(a, b):
                issues.append(C.issue("C04:objects:Normal", "probability.Normal.log_prob differs from tensorlib.normal_logpdf", **ctx))
            ind = out(probability.Independent(probability.Poisson(T(lam))).log_prob(T(n)))
            ncmp += 1
            tot = float(np.sum(out(tl.poisson_logpdf(T(n), T(lam)))))
            if not abs(float(ind) - tot) <= 16 * eps * float(np.sum(np.abs(out(tl.poisson_logpdf(T(n), T(lam)))))):
                issues.append(C.issue("C04:objects:Independent", f"Independent.log_prob {float(ind)!r} != sum of components {tot!r}", **ctx))
            # expected_data of the objects are their parameters
            ncmp += 2
            if not np.array_equal(out(probability.Poisson(T(lam)).expected_data()), lam.astype(np.float64)):
                issues.append(C.issue("C04:objects:Poisson.expected_data", "expected_data != rate", **ctx))
            if not np.array_equal(out(probability.Normal(T(mu), T(sg)).expected_data()), mu.astype(np.float64)):
                issues.append(C.issue("C04:objects:Normal.expected_data", "expected_data != loc", **ctx))
            dig.append(float(ind))
    finally:
        C.reset_backend()
    return dict(issues=issues, nontrivial=True, outcome=digest([fn, be, dig]), comparisons=ncmp)
