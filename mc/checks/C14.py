"""C14 — toy p-values are exact tail fractions of correctly sampled pseudo-data (DESIGN.md 4/C14)."""
from __future__ import annotations

import itertools
from fractions import Fraction

import numpy as np

from mc.checks import common as C
from mc.core import seams
from mc.core.run import digest
from mc.gen import lattices as L
from mc.gen import specspace as S
from mc.ref import histfactory as H
from mc.ref import stats as R

ID = "C14"
LEVEL = "exploration"
TECHNIQUE = ("exhaustive sample-vector enumeration for the empirical p-value; recording/enumerating sampler seams (which parameter reaches which data slot; "
             "exactly enumerated Poisson toys through the real ToyCalculator); seeded smoke test of the trusted library samplers")
PRELOAD = None
LEVEL_TEXT = ("E1: all sample vectors of length <=5 over {-2,0,1,2.5,7} (ties and negative values included) x observed values inside/outside the range: exact Fraction oracle. "
              "E2: every spec with <=k deviations sampled through a recording sampler seam: shapes, and by value which rate / constraint parameter reaches "
              "which data slot. E3: the real ToyCalculator with an enumerating sampler (deterministic multiset = exact Poisson law quantised to 1/N): toy "
              "CL_s+b / CL_b must equal the exact tail sums within the quantisation bound, each sample set drawn at its own conditional fit. "
              "E4 (seeded, not exhaustive, labelled as such): moments of real pseudo-data and toy CLs within 6 sigma.")
LEVEL_NOTE = "trusted base: scipy/torch/tfp/jax random samplers (smoke-tested only, E4); mc/ref/stats.py; the RNG stream itself is not enumerable"

ALPH = [-2.0, 0.0, 1.0, 2.5, 7.0]
OBS = [-3.0, -2.0, -1.0, 0.0, 1.0, 2.5, 7.0, 0.5, 8.0]


def plan(tier, seed):
    cases = []
    backends = ["numpy", "pytorch", "jax", "tensorflow"]
    for be in backends + (["numpy32", "pytorch32"] if tier == "thorough" else []):
        for n in range(1, 6):
            cases.append({"kind": "E1", "backend": be, "n": n})
    k2 = 1 if tier == "quick" else 2
    for r in range(k2 + 1):
        for be in (backends if r <= 1 else ["numpy"]):
            for c in S.all_cases(r, exact=True):
                cases.append({"kind": "E2", "skel": c["skel"], "combo": c["combo"], "backend": be, "seed": seed})
    # curated 3-deviation specs: one Gaussian-constrained scalar + one shapesys + one staterror (Gaussian and Poisson auxiliary entries interleaved)
    if k2 < 3:
        for sk in ("B1", "B2"):
            mm = S.menu(sk)
            fam = lambda pref: [i for i, it in enumerate(mm) if it[0].split("@")[0].split(":")[0] in pref]
            for a in fam(("normsys", "lumi")):
                for b in fam(("shapesys",)):
                    for c_ in fam(("staterror",)):
                        combo = tuple(sorted((a, b, c_)))
                        if S.build(sk, combo) is not None:
                            cases.append({"kind": "E2", "skel": sk, "combo": list(combo), "backend": "numpy" if (a + b + c_) % 3 else "jax", "seed": seed})
    for mn, grid in (("poi1", [400]), ("onoff", [20, 15])):
        for ts in ("qtilde", "q", "q0"):
            for nobs in ((44.0, 50.0, 58.0) if tier == "quick" else (40.0, 44.0, 50.0, 55.0, 58.0, 66.0)):
                for mu in ((1.0,) if tier == "quick" else (0.5, 1.0, 2.0)):
                    cases.append({"kind": "E3", "model": mn, "grid": grid, "test_stat": ts, "nobs": nobs, "mu": mu})
                    if mn == "onoff" and nobs in (44.0, 58.0):
                        # the caller holds the nuisance constant: both hypotheses must be generated at that value
                        cases.append({"kind": "E3", "model": mn, "grid": grid, "test_stat": ts, "nobs": nobs, "mu": mu, "fix_nuisance": 1.0})
    for be in backends:
        cases.append({"kind": "E4", "backend": be, "seed": seed})
    return dict(
        cases=cases, chunk=2,
        rule="E1 case = (backend, length n): all 5^n sample vectors x 9 observed values; E2 case = (spec with <=k deviations, backend): points P1,P2 x sample "
             "shapes (),(3,),(2,2) x {unbatched, batch 2} x record modes; E3 case = (model, statistic, observed count, mu) with N=400/300 enumerated toys; "
             "E4 = seeded smoke test per backend (not exhaustive); non-trivial: p-values strictly between 0 and 1 observed / >=1 constraint term; distinct = distinct case",
        alphabet={"E1_values": ALPH, "E1_observed": OBS, "E3_models": ["poi1", "onoff"], "E3_grid": {"poi1": [400], "onoff": [20, 15]}},
        bound={"E2_deviations": k2},
        trusted_base=["library random samplers (E4 smoke test only)", "mc/ref/stats.py", "mc/ref/histfactory.py"],
        exhaustive=True,
        assumptions=["E4 uses VERIF_SEED-derived RNG seeds and is the only non-enumerative step; it guards the trusted base and cannot decide the property"],
    )


def eval_case(case):
    return {"E1": e1, "E2": e2, "E3": e3, "E4": e4}[case["kind"]](case)


def e1(case):
    import pyhf
    from pyhf.infer.calculators import EmpiricalDistribution

    be = case["backend"]
    tl = C.set_backend(be)
    issues, ncmp, dig = [], 0, []
    inside = False
    try:
        for vec in itertools.product(ALPH, repeat=case["n"]):
            dist = EmpiricalDistribution(C.tens(list(vec)))
            prev = None
            for v in sorted(OBS):
                p = float(np.asarray(tl.tolist(dist.pvalue(C.tens(v)[()] if False else tl.astensor(v)))))
                ref = Fraction(sum(1 for s in vec if s >= v), len(vec))
                ncmp += 1
                if abs(p - float(ref)) > 4 * C.eps_of(be):
                    issues.append(C.issue("C14:E1:pvalue", f"samples {vec}, observed {v}: p-value {p!r}, exact fraction {ref}", backend=be))
                    break
                if not 0 <= p <= 1 or (prev is not None and p > prev):
                    issues.append(C.issue("C14:E1:range_monotone", f"samples {vec}: p-value {p!r} after {prev!r} at observed {v}", backend=be))
                    break
                prev = p
                inside |= 0 < p < 1
            dig.append(prev)
    finally:
        C.reset_backend()
    return dict(issues=issues, nontrivial=inside or case["n"] == 1, outcome=digest([be, case["n"], len(dig)]), comparisons=ncmp)


def e2(case):
    import pyhf

    be = case["backend"]
    labels, spec = S.build(case["skel"], tuple(case["combo"]))
    ps = H.paramsets(spec)
    issues, ncmp, dig = [], 0, []
    tl = C.set_backend(be)
    eps = C.eps_of(be)
    try:
        for B in (None, 2):
            m = pyhf.Model(spec, poi_name="mu", batch_size=B)
            cfg = m.config
            pts = [v for _, v in L.points(spec, case.get("seed", 0), ps, boundary=False)[1:3]]
            rows = pts if B else pts[:1]
            P = np.array([L.vector(cfg, r) for r in rows])
            pt = C.tens(P if B else P[0])
            nd = cfg.nmaindata + len(cfg.auxdata)
            refs = {}
            for mode in ("rate", "scale"):
                refrows = []
                for r in rows:
                    ex = H.expected(spec, r)
                    main = [float(x) for ch in cfg.channels for x in ex[ch]]
                    aux = []
                    ea = H.expected_aux(spec, r, ps)
                    for n in cfg.auxdata_order:
                        if ps[n]["constraint"] == "poisson" or mode == "rate":
                            aux += [float(x) for x in ea[n]]
                        else:
                            aux += [float(x) for x in ps[n]["sigmas"]]
                    refrows.append(main + aux)
                refs[mode] = np.array(refrows)
            for mode in ("rate", "scale"):
                for shp in ((), (3,), (2, 2)):
                    ctx = dict(labels=labels, backend=be, batch=B, mode=mode, shape=list(shp))
                    with seams.SamplerSeam("record:" + ("loc" if mode == "rate" else "scale")):
                        try:
                            smp = np.asarray(tl.tolist(m.make_pdf(pt).sample(shp)), dtype=float)
                        except Exception as e:
                            issues.append(C.issue(f"C14:E2:sample:{type(e).__name__}", f"sample raised {e}"[:200], **ctx))
                            continue
                    want_shape = tuple(shp) + ((B,) if B else ()) + (nd,)
                    ncmp += 2
                    if smp.shape != want_shape:
                        issues.append(C.issue("C14:E2:shape", f"sample shape {smp.shape}, expected {want_shape}", **ctx))
                        continue
                    flat = smp.reshape((-1,) + want_shape[len(shp):])
                    ref = refs[mode] if B else refs[mode][0]
                    bad = np.abs(flat - ref[None]) > 64 * eps * (np.abs(ref[None]) + 1)
                    if bad.any():
                        i = np.argwhere(bad)[0]
                        slot = int(i[-1])
                        issues.append(C.issue(f"C14:E2:slot:{'main' if slot < cfg.nmaindata else 'aux'}:{mode}",
                                              f"data slot {slot} is sampled around {flat[tuple(i)]!r}, the model says {ref[tuple(i[1:])] if B else ref[slot]!r}", **ctx))
                    dig.append(round(float(flat.sum()), 5))
    finally:
        C.reset_backend()
    return dict(issues=issues, nontrivial=any(d["constraint"] for d in ps.values()), outcome=digest(dig), comparisons=ncmp)


def e3(case):
    import pyhf
    from scipy.stats import poisson as sp

    from mc.checks.C06 import models

    mdl = models()[case["model"]]
    ts, mu, grid = case["test_stat"], case["mu"], case["grid"]
    ntoys = int(np.prod(grid))
    issues, ncmp = [], 0
    C.set_backend("numpy")
    tl = pyhf.tensorlib
    try:
        m = pyhf.Model(mdl.spec(), poi_name="mu")
        data = [case["nobs"]] + mdl.nominal_aux()
        bounds = m.config.suggested_bounds()
        if ts == "q":
            bounds[m.config.poi_index] = (-5.0, 10.0)
        poi_test = 0.0 if ts == "q0" else mu
        ctx = dict(model=case["model"], test_stat=ts, nobs=case["nobs"], mu=mu, fix_nuisance=case.get("fix_nuisance"))
        extra = {}
        fixg = case.get("fix_nuisance")
        if fixg is not None:
            nidx = 1 - m.config.poi_index
            init = m.config.suggested_init()
            init[nidx] = fixg
            fixed = m.config.suggested_fixed()
            fixed[nidx] = True
            extra = dict(init_pars=init, fixed_params=fixed)
        with seams.SamplerSeam("enumerate", grid=grid) as seam:
            res = pyhf.infer.hypotest(poi_test, C.tens(data), m, par_bounds=bounds, calctype="toybased", ntoys=ntoys, test_stat=ts, track_progress=False,
                                      return_tail_probs=True, return_calculator=True, **extra)
            draws = [e for e in seam.log]
        if ts == "q0":
            clsb, clb = float(res[0]), float(res[1][0])
        else:
            clsb, clb = float(res[1][0]), float(res[1][1])
        # which hypotheses were sampled: first sample set at poi_test, second at 0 (1 for q0), each at its own conditional nuisance values
        hyps = [poi_test, 1.0 if ts == "q0" else 0.0]
        nd = len(grid)
        ncmp += 2
        if len(draws) != 2 * nd:
            issues.append(C.issue("C14:E3:draws", f"{len(draws)} sampler calls, expected {2 * nd}", **ctx))
            return dict(issues=issues, nontrivial=False, outcome="bad", comparisons=ncmp)
        exact = []
        qcache = {}
        for k, h in enumerate(hyps):
            g = mdl.profile_nuis(h, data) if fixg is None else fixg
            want = [float(x) for x in mdl.expected_data(h, g if g is not None else 1.0)]
            got = [float(np.ravel(d["params"][0])[0]) for d in draws[k * nd:(k + 1) * nd]]
            if not np.allclose(got, want, rtol=2e-3):
                issues.append(C.issue(f"C14:E3:hypothesis:{'s+b' if k == 0 else 'b'}", f"sample set {k} drawn at rates {got}, the conditional fit at mu={h} gives {want}", **ctx))
            # exact tail probability under this hypothesis, from the closed-form statistic, with the quantisation bound of the enumerated toys
            lam = want
            if fixg is not None:
                exact.append((0.0, 0.0))
                continue
            qobs = (mdl.q0(data, bounds[m.config.poi_index])[0] if ts == "q0" else mdl.qmu(mu, data, bounds[m.config.poi_index])[0])
            supports = [np.unique(seams.enumerate_poisson(l, n)) for l, n in zip(lam, grid)]
            p_exact, quant = 0.0, 0.0
            for combo in itertools.product(*supports):
                toy = list(combo)
                pm = float(np.prod([sp.pmf(v, l) for v, l in zip(toy, lam)]))
                if tuple(toy) not in qcache:
                    qcache[tuple(toy)] = (mdl.q0(toy, bounds[m.config.poi_index])[0] if ts == "q0" else mdl.qmu(mu, toy, bounds[m.config.poi_index])[0])
                q = qcache[tuple(toy)]
                if q >= qobs - 1e-7:
                    p_exact += pm
            for l, n in zip(lam, grid):
                vals = seams.enumerate_poisson(l, n)
                ks, cnt = np.unique(vals, return_counts=True)
                quant += float(np.sum(np.abs(cnt / n - sp.pmf(ks, l))) + (1 - np.sum(sp.pmf(ks, l))))
            exact.append((p_exact, quant))
        for name, got, (pe, qb) in ((("CLsb", clsb, exact[0]), ("CLb", clb, exact[1])) if fixg is None else ()):
            ncmp += 1
            # ties at q == q_obs: the toy equal to the observation may fall on either side of a 1e-7 fit wobble -> allow its mass
            if not abs(got - pe) <= qb + 0.02:
                issues.append(C.issue(f"C14:E3:{name}:{ts}", f"toy {name} = {got!r}, exact tail probability {pe!r} (quantisation bound {qb:.3g})", **ctx))
        out = [round(clsb, 3), round(clb, 3)]
    finally:
        C.reset_backend()
    return dict(issues=issues, nontrivial=0 < clsb < 1 or 0 < clb < 1, outcome=digest([case["model"], ts, case["nobs"], mu, out]), comparisons=ncmp)


def e4(case):
    """seeded smoke test of the trusted samplers: not exhaustive, cannot decide the property; reported under its own key."""
    import pyhf

    be = case["backend"]
    issues, ncmp = [], 0
    tl = C.set_backend(be)
    try:
        seed = 1000 + int(case.get("seed", 0))
        np.random.seed(seed)
        if be == "pytorch":
            import torch
            torch.manual_seed(seed)
        if be == "tensorflow":
            import tensorflow as tf
            tf.random.set_seed(seed)
        m = pyhf.simplemodels.uncorrelated_background([5.0, 7.0], [50.0, 20.0], [7.0, 3.0])
        pars = C.tens([1.0, 0.9, 1.1])
        exp = np.asarray(tl.tolist(m.expected_data(pars)), dtype=float)
        n = 20000
        try:
            smp = np.asarray(tl.tolist(m.make_pdf(pars).sample((n,))), dtype=float)
        except Exception as e:
            return dict(issues=[C.issue(f"C14:E4:sample:{type(e).__name__}:{be}", f"sampling raised {e}"[:200])], nontrivial=False, outcome="exc", comparisons=1)
        ncmp += 3
        if smp.shape != (n, 4):
            issues.append(C.issue("C14:E4:shape", f"sample shape {smp.shape}", backend=be))
        else:
            if np.any(smp < 0) or np.any(smp != np.round(smp)):
                issues.append(C.issue("C14:E4:integer", "pseudo-data are not non-negative integers (all four slots of this model are Poisson distributed)", backend=be))
            mean, var = smp.mean(axis=0), smp.var(axis=0)
            if np.any(np.abs(mean - exp) > 6 * np.sqrt(exp / n)):
                issues.append(C.issue("C14:E4:mean", f"sample means {mean.tolist()} vs expected {exp.tolist()}", backend=be))
            if np.any(np.abs(var - exp) > 6 * exp * np.sqrt(2.0 / n + 1.0 / (n * exp))):
                issues.append(C.issue("C14:E4:variance", f"sample variances {var.tolist()} vs expected {exp.tolist()}", backend=be))
        # Gaussian-constrained auxiliary data (staterror widths != 1, a unit-width normsys): mean = parameter, standard deviation = constraint width
        spec = {"channels": [{"name": "c", "samples": [
            {"name": "sig", "data": [5.0, 6.0], "modifiers": [{"name": "mu", "type": "normfactor", "data": None}]},
            {"name": "bkg", "data": [50.0, 40.0], "modifiers": [{"name": "st", "type": "staterror", "data": [5.0, 2.0]}, {"name": "ns", "type": "normsys", "data": {"lo": 0.9, "hi": 1.1}}]}]}]}
        mg = pyhf.Model(spec, poi_name="mu")
        vals = {"mu": [1.0], "ns": [0.4], "st": [0.95, 1.08]}
        pv = C.tens(L.vector(mg.config, vals))
        smp = np.asarray(tl.tolist(mg.make_pdf(pv).sample((n,))), dtype=float)
        ncmp += 2
        # the constraint terms are independent: pairwise correlations of the standardised auxiliary columns vanish
        auxc = smp[:, mg.config.nmaindata:]
        z = (auxc - auxc.mean(axis=0)) / auxc.std(axis=0)
        corr = (z.T @ z) / n
        ncmp += 1
        offd = corr - np.diag(np.diag(corr))
        if np.any(np.abs(offd) > 6 / np.sqrt(n)):
            issues.append(C.issue("C14:E4:aux_correlation", f"auxiliary pseudo-data of independent constraint terms are correlated (max |r| = {float(np.max(np.abs(offd))):.3f})", backend=be))
        off = mg.config.nmaindata
        for name in mg.config.auxdata_order:
            k_ = mg.config.param_set(name).n_parameters
            col = smp[:, off:off + k_]
            off += k_
            mean_ref = np.asarray(vals[name], dtype=float)
            sig_ref = np.asarray([0.1, 0.05], dtype=float) if name == "st" else np.asarray([1.0])
            if np.any(np.abs(col.mean(axis=0) - mean_ref) > 6 * sig_ref / np.sqrt(n)):
                issues.append(C.issue("C14:E4:aux_mean", f"auxiliary data of {name}: mean {col.mean(axis=0).tolist()} vs parameter {mean_ref.tolist()}", backend=be))
            if np.any(np.abs(col.std(axis=0) - sig_ref) > 6 * sig_ref / np.sqrt(2 * n)):
                issues.append(C.issue("C14:E4:aux_width", f"auxiliary data of {name}: standard deviation {col.std(axis=0).tolist()} vs constraint width {sig_ref.tolist()}", backend=be))
    finally:
        C.reset_backend()
    return dict(issues=issues, nontrivial=True, outcome=digest([be, "smoke"]), comparisons=ncmp)


def finalize(results, plan, cases):
    n4 = sum(1 for c in cases if c["kind"] == "E4")
    return {"non_exhaustive_part": f"{n4} E4 cases are a seeded smoke test of the library random samplers (trusted base); every other case enumerates its finite space completely",
            "cases_by_layer": {k: sum(1 for c in cases if c["kind"] == k) for k in ("E1", "E2", "E3", "E4")}}
