"""C11 — results are independent of the history of backend switches (DESIGN.md 4/C11).

TLC enumerates the complete labelled state graph of the reference protocol mc/tla/Backend.tla; *every transition* is replayed on real
pyhf (BFS-tree path to the source state + the edge) and, after it, every live object must evaluate exactly as an object freshly created now.
"""
from __future__ import annotations

import gc
import re

import numpy as np

from mc.checks import common as C
from mc.core.run import digest

ID = "C11"
LEVEL = "model_checking"
TECHNIQUE = ("TLC explicit-state enumeration of a TLA+ reference protocol (backend switches x object creation/deletion), every transition of the state graph replayed "
             "against the implementation with a fresh-object differential oracle and subscriber accounting binding model state to implementation state")
PRELOAD = None
LEVEL_TEXT = ("The state graph of Backend.tla (configurations = backend x precision x optimiser, <=2 (3) objects of several kinds, <=3 (4) switches) is produced by TLC. "
              "Each of its transitions is replayed on the real library; after it every object the model says is alive is evaluated and must be bit-identical "
              "(values, tensor type, dtype) to a freshly created object under the now-current backend, the current backend must be the model's `cur`, and the "
              "number of live tensorlib_changed subscribers must equal what the model's alive set implies. Deleted objects are garbage-collected and later "
              "switches must not raise. On traces that end in a state with a live model, a fit on the old and the fresh model must agree.")
LEVEL_NOTE = ("trusted: TLC, the reference model (its own invariant is checked by TLC; assurance about pyhf comes from replaying every transition); CPU backends only; "
              "fits are compared within optimiser tolerance")

CFG = {
    "np64": ("numpy", "64b", "scipy"), "np32": ("numpy", "32b", "scipy"), "jax64": ("jax", "64b", "scipy"), "jax32": ("jax", "32b", "scipy"),
    "pt64": ("pytorch", "64b", "scipy"), "pt32": ("pytorch", "32b", "scipy"), "tf64": ("tensorflow", "64b", "scipy"), "tf32": ("tensorflow", "32b", "scipy"),
    "np64m": ("numpy", "64b", "minuit"), "pt64m": ("pytorch", "64b", "minuit"),
}

SPEC = {"channels": [   # every constant is chosen so that it is NOT exactly representable in float32 (a stale 32b tensor is then visible at 64b)
    {"name": "zc", "samples": [
        {"name": "sig", "data": [5.3, 6.7], "modifiers": [{"name": "mu", "type": "normfactor", "data": None}, {"name": "lumi", "type": "lumi", "data": None},
                                                         {"name": "st", "type": "staterror", "data": [1.1, 0.53]}]},
        {"name": "bkg", "data": [50.3, 60.9], "modifiers": [{"name": "h", "type": "histosys", "data": {"lo_data": [45.7, 58.1], "hi_data": [56.3, 63.9]}},
                                                           {"name": "n", "type": "normsys", "data": {"lo": 0.9, "hi": 1.1}},
                                                           {"name": "st", "type": "staterror", "data": [3.3, 4.7]}, {"name": "ss", "type": "shapesys", "data": [5.3, 6.1]}]}]},
    {"name": "ab", "samples": [
        {"name": "bkg", "data": [30.7, 20.3, 10.9], "modifiers": [{"name": "n", "type": "normsys", "data": {"lo": 0.95, "hi": 1.07}}, {"name": "sf", "type": "shapefactor", "data": None}]}]}],
    "parameters": [{"name": "lumi", "auxdata": [1.1], "sigmas": [0.02], "bounds": [[0.5, 1.5]], "inits": [1.1]}]}
PARS = np.array([0.3, 1.07, 1.3, -0.6, 0.7, 1.4, 2.2, 1.1, 0.8, 0.9, 1.2])
DATA = np.array([52.0, 70.0, 33.0, 18.5, 0.0] + [0.3, 1.13, -0.2, 90.3, 98.7, 1.05, 0.97])
HS = [[[[8.1, 9.3, 0.53], [10.1, 10.7, 1.1], [13.3, 11.9, 2.3]]], [[[13.1, 2.3, 1.2], [10.3, 3.1, 1.1], [8.7, 3.3, 0.7]]]]
AL = np.array([[-1.7, -1.0, 0.0, 0.45, 1.0, 2.2], [1.3, -0.6, 1.0, -2.5, 0.0, 0.2]])


def plan(tier, seed):
    if tier == "quick":
        graphs = [({"Cfgs": '{"np64","np32","jax64","pt64","tf64","np64m"}', "Kinds": '{"model","interp","batched"}', "MaxObjs": "2", "MaxSwitches": "2", "InitCfg": '"np64"'}, 64)]
    else:
        graphs = [({"Cfgs": '{"np64","np32","jax64","jax32","pt64","pt32","tf64","tf32","np64m","pt64m"}', "Kinds": '{"model","interp","batched","viewer"}', "MaxObjs": "2",
                   "MaxSwitches": "2", "InitCfg": '"np64"'}, 160),
                  ({"Cfgs": '{"np64","jax64","pt64","tf64"}', "Kinds": '{"model","interp"}', "MaxObjs": "3", "MaxSwitches": "3", "InitCfg": '"np64"'}, 160)]
    cases = []
    for gi, (const, shards) in enumerate(graphs):
        cases += [{"graph": gi, "const": const, "shard": i, "shards": shards, "fits": True} for i in range(shards)]
    return dict(
        cases=cases, chunk=1,
        rule="case = shard i/N of the transitions of the TLC state graph of Backend.tla for the stated constants; each transition = replay of the BFS-tree path to its source "
             "state + the edge on real pyhf, then fresh-object comparison of every live object; non-trivial = shard contains traces with a live object surviving >=1 switch; "
             "distinct = distinct shard",
        alphabet={"graphs": [g for g, _ in graphs], "object_kinds": {"model": "two-channel model with all seven modifier types", "batched": "same, batch_size=2",
                                                                     "interp": "code0/1/2/4/4p interpolators", "viewer": "_TensorViewer + ParamViewer"}},
        bound={"graphs": [{"MaxObjs": int(g["MaxObjs"]), "MaxSwitches": int(g["MaxSwitches"])} for g, _ in graphs]},
        trusted_base=["TLC 1.8 (state graph)", "mc/tla/Backend.tla"],
    )


def nsub():
    import pyhf

    ev = pyhf.events.__dict__["__events"].get("tensorlib_changed")
    return len(ev) if ev is not None else 0


class Obj:
    def __init__(self, kind):
        import pyhf
        from pyhf.parameters import ParamViewer
        from pyhf.tensor.common import _TensorViewer

        self.kind = kind
        before = nsub()
        if kind == "model":
            self.o = pyhf.Model(SPEC, poi_name="mu")
        elif kind == "batched":
            self.o = pyhf.Model(SPEC, poi_name="mu", batch_size=2)
        elif kind == "interp":
            self.o = [pyhf.interpolators.get(c)(HS) for c in (0, 1, 2, 4, "4p")]
        else:
            cfgm = pyhf.Model(SPEC, poi_name="mu").config
            par_map = {k: {"slice": v["slice"]} for k, v in cfgm.par_map.items()}
            self.o = (_TensorViewer([[0, 2, 4], [1, 3]]), ParamViewer((1, cfgm.npars), cfgm.par_map, ["n", "st", "mu"]), ParamViewer((3, cfgm.npars), cfgm.par_map, ["ss", "h"]))
            del cfgm
            gc.collect()
        self.subs = nsub() - before

    def evaluate(self):
        import pyhf

        tl = pyhf.tensorlib
        T = lambda a: tl.astensor(np.asarray(a, dtype=np.float64))
        out = []

        def rec(name, t):
            out.append((name, type(t).__module__.split(".")[0], str(getattr(t, "dtype", "?")), np.asarray(tl.tolist(t), dtype=np.float64).tolist()))
        if self.kind == "model":
            rec("expected_data", self.o.expected_data(T(PARS)))
            rec("logpdf", self.o.logpdf(T(PARS), T(DATA)))
            rec("bysample", self.o.main_model.expected_data(T(PARS), return_by_sample=True))
        elif self.kind == "batched":
            P = np.stack([PARS, PARS * 0.97 + 0.01])
            D = np.stack([DATA, DATA + 1.0])
            rec("expected_data", self.o.expected_data(T(P)))
            rec("logpdf", self.o.logpdf(T(P), T(D)))
        elif self.kind == "interp":
            for c, it in zip((0, 1, 2, 4, "4p"), self.o):
                rec(f"code{c}", it(T(AL)))
                rec(f"code{c}b", it(T(AL[:, :2])))
        else:
            tv, pv, pvb = self.o
            a, b = tv.split(T([10.0, 11.0, 12.0, 13.0, 14.0]))
            rec("split0", a)
            rec("split1", b)
            rec("stitch", tv.stitch([T([1.0, 2.0, 3.0]), T([4.0, 5.0])]))
            rec("pv.get", pv.get(T(PARS.reshape(1, -1))))
            rec("pvb.get", pvb.get(T(np.stack([PARS, PARS + 1, PARS + 2]))))
        return out


_WARM = False


def warm(cfgs):
    """once per worker: import every backend, run every kernel once, then freeze the heap so that the gc.collect() calls the harness
    needs (to make object deletion observable) do not re-traverse the libraries' millions of objects."""
    global _WARM
    import pyhf

    if _WARM:
        return
    o = [Obj(k) for k in ("model", "batched", "interp", "viewer")]
    for c in re.findall(r'"(\w+)"', cfgs):
        be, prec, opt = CFG[c]
        pyhf.set_backend(be, opt, precision=prec)
        for x in o:
            try:
                x.evaluate()
            except Exception:
                pass  # reported by the trace that exercises it
    pyhf.set_backend("numpy", "scipy", precision="64b")
    del o
    gc.collect()
    gc.freeze()
    _WARM = True


def eval_case(case):
    import pyhf

    from mc.core import tlc

    warm(case["const"]["Cfgs"])
    g = tlc.run("Backend", case["const"])
    paths = tlc.bfs_paths(g)
    edges = sorted(g["edges"])
    mine = [e for i, e in enumerate(edges) if i % case["shards"] == case["shard"]]
    issues, ncmp = [], 0
    survived = 0
    nfits = 0
    sample = None
    for src, dst, action in mine:
        trace = paths[src] + [action]
        ctx = dict(trace=trace)
        # ---- reset: a fresh history starts from an interpreter state with no live pyhf objects
        gc.collect()
        pyhf.set_backend("numpy", "scipy", precision="64b")
        base = nsub()
        objs = []
        cur = "np64"
        ok = True
        jax_fit = False
        try:
            for a in trace:
                name, args = tlc.parse_action(a)
                if name == "Switch":
                    be, prec, opt = CFG[args[0]]
                    pyhf.set_backend(be, opt, precision=prec)
                    cur = args[0]
                    if any(o is not None for o in objs):
                        survived += 1
                elif name == "Create":
                    objs.append(Obj(args[0]))
                else:
                    objs[args[0] - 1] = None
                    gc.collect()
        except Exception as e:
            issues.append(C.issue(f"C11:raised:{type(e).__name__}", f"history raised {type(e).__name__}: {e}"[:200], **ctx))
            ok = False
        if ok:
            # ---- conformance with the model's post-state
            lab = g["states"][dst]
            mcur = re.search(r'cur = "(\w+)"', lab).group(1)
            alive = re.findall(r"alive \|-> (TRUE|FALSE)", lab)
            derived = re.findall(r'derived \|-> "(\w+)"', lab)
            ncmp += 2
            tlb, optm = pyhf.get_backend()
            if (tlb.name, tlb.precision, optm.name) != CFG[mcur] or mcur != cur:
                issues.append(C.issue("C11:current_backend", f"current backend {(tlb.name, tlb.precision, optm.name)} but the model says {CFG[mcur]}", **ctx))
            if [o is not None for o in objs] != [a == "TRUE" for a in alive]:
                issues.append(C.issue("C11:harness:alive", f"harness alive set {[o is not None for o in objs]} != model {alive}", **ctx))
            gc.collect()
            expect_subs = base + sum(o.subs for o in objs if o is not None)
            ncmp += 1
            if nsub() != expect_subs:
                issues.append(C.issue("C11:subscribers", f"{nsub()} live tensorlib_changed subscribers, the model's alive set implies {expect_subs}", **ctx))
            for i, o in enumerate(objs):
                if o is None:
                    continue
                ncmp += 1
                try:
                    got = o.evaluate()
                    fresh = Obj(o.kind)
                    ref = fresh.evaluate()
                except Exception as e:
                    issues.append(C.issue(f"C11:evaluate:{type(e).__name__}", f"object {i + 1} ({o.kind}) cannot be evaluated after the history: {e}"[:200], **ctx))
                    continue
                be_mod = {"numpy": "numpy", "jax": ("jax", "jaxlib"), "pytorch": "torch", "tensorflow": "tensorflow"}[CFG[mcur][0]]
                for (n1, mod1, dt1, v1), (n2, mod2, dt2, v2) in zip(got, ref):
                    if mod1 != mod2 or dt1 != dt2 or (mod1 not in be_mod if isinstance(be_mod, tuple) else mod1 != be_mod):
                        issues.append(C.issue(f"C11:tensor_type:{o.kind}", f"{n1} of object {i + 1} is a {mod1}/{dt1} tensor, a fresh object gives {mod2}/{dt2} (derived per model: {derived[i]})", **ctx))
                        break
                    if v1 != v2 and not (np.asarray(v1).shape == np.asarray(v2).shape and np.array_equal(np.asarray(v1), np.asarray(v2), equal_nan=True)):
                        issues.append(C.issue(f"C11:value:{o.kind}", f"{n1} of object {i + 1} ({o.kind}) differs from a freshly created object "
                                              f"(max |diff| {float(np.max(np.abs(np.asarray(v1, dtype=float) - np.asarray(v2, dtype=float)))) if np.asarray(v1).shape == np.asarray(v2).shape else 'shape'})", **ctx))
                        break
                # inference on the old object = inference on the fresh one (terminal state of the trace)
                if o.kind == "model" and case.get("fits") and CFG[mcur][1] == "64b" and action.startswith("Switch"):
                    try:
                        d = pyhf.tensorlib.astensor(np.asarray(DATA[:5].tolist() + list(o.o.config.auxdata)))
                        f1 = pyhf.infer.mle.fit(d, o.o, return_fitted_val=True)
                        f2 = pyhf.infer.mle.fit(d, fresh.o, return_fitted_val=True)
                        nfits += 1
                        ncmp += 1
                        jax_fit |= CFG[mcur][0] == "jax"
                        if abs(float(f1[1]) - float(f2[1])) > 1e-6:
                            issues.append(C.issue("C11:fit", f"fit on the old model gives 2NLL {float(f1[1])!r}, on a fresh model {float(f2[1])!r}", **ctx))
                    except Exception as e:
                        issues.append(C.issue(f"C11:fit:{type(e).__name__}", f"fit after the history raised {e}"[:200], **ctx))
                del fresh
        sample = {"trace": trace, "model_post_state": g["states"][dst].replace("\n", " ")}
        objs = None
        gc.collect()
        if jax_fit:
            import jax
            jax.clear_caches()  # a model that went through a jitted fit is kept alive by the jit cache (static pdf argument)
    C.reset_backend()
    return dict(issues=issues, nontrivial=survived > 0, outcome=digest([case["shard"], len(mine), survived]), comparisons=ncmp, trans=len(mine),
                extra={"states": len(g["states"]) if case["shard"] == 0 else 0, "sample": sample if case["shard"] < 3 else None, "fits": nfits})


def finalize(results, plan, cases):
    st = sum((r.get("extra") or {}).get("states", 0) for r in results)
    tr = sum(r.get("trans", 0) for r in results)
    return {"states": max(st, 1), "transitions": max(tr, 1), "traces_validated_against_impl": tr, "fits_compared": sum((r.get("extra") or {}).get("fits", 0) for r in results),
            "samples": [r["extra"]["sample"] for r in results if (r.get("extra") or {}).get("sample")][:3] or [{"trace": []}]}
