"""C06 — profile-likelihood test statistics obey their case definitions (DESIGN.md 4/C06)."""
from __future__ import annotations

import itertools

import numpy as np

from mc.checks import common as C
from mc.core import seams
from mc.core.run import digest
from mc.ref import stats as R

ID = "C06"
LEVEL = "exploration"
TECHNIQUE = "exhaustive enumeration of scripted fit answers (mu_hat x likelihood gap x tested mu x statistic x POI bound) + closed-form counting models with real fits"
PRELOAD = None
LEVEL_TEXT = ("Scripted layer: the optimiser seam answers the two fits of each statistic with every combination of fitted POI (below, at, just "
              "above the tested value, at the bound, negative) and likelihood gap (negative, zero, tiny, large); the unmodified statistic functions "
              "must implement max(0, gap) and the one-sided zeroing rules exactly, and request the fits they claim (q0 always at mu=0). Real layer: "
              "closed-form counting models with real scipy/minuit fits over a data lattice on both sides of the hypothesis.")
LEVEL_NOTE = "trusted: mc/ref/stats.py closed forms (1-D convex root finding in mpmath); scripted optimiser replaces only the fit answers"

STATS = ["q", "qtilde", "q0", "t", "ttilde"]


def statfn(name):
    from pyhf.infer import test_statistics as T

    return {"q": T.qmu, "qtilde": T.qmu_tilde, "q0": T.q0, "t": T.tmu, "ttilde": T.tmu_tilde}[name]


def models():
    return {
        "poi1": R.Counting("poi", s=[[5.0]], b=[[50.0]]),
        "poi2": R.Counting("poi", s=[[5.0, 3.0]], b=[[50.0, 30.0]]),
        "poi3c": R.Counting("poi", s=[[5.0, 3.0], [2.0]], b=[[50.0, 30.0], [12.0]]),
        "onoff": R.Counting("onoff", s=6.0, b=50.0, db=7.0),
        "srcr": R.Counting("srcr", s=6.0, b1=40.0, b2=90.0),
    }


def datasets(mdl, zero=True):
    """main-data lattice: 0, low, near expectation (integer), Asimov non-integer at mu=0.7, high."""
    out = []
    base = [float(x) for x in mdl.rates(0.0, 1.0)]
    for f in ([0.0] if zero else []) + [0.75, 1.0, 1.13, 1.4]:
        out.append([float(int(x * f)) for x in base])
    out.append([float(x) + 0.37 for x in mdl.rates(0.7, 1.0)])
    return out


def plan(tier, seed):
    cases = []
    backends = ["numpy", "pytorch", "jax", "tensorflow"] if tier == "quick" else ["numpy", "numpy32", "pytorch", "pytorch32", "jax", "jax32", "tensorflow", "tensorflow32"]
    for be in backends:
        for st in STATS:
            for lo in (0.0, -5.0):
                cases.append({"kind": "scripted", "backend": be, "stat": st, "lower": lo})
    mnames = ["poi1", "poi2", "poi3c"] + (["onoff", "srcr"] if tier == "thorough" else ["onoff"])
    opts = ["scipy", "minuit"] if tier == "thorough" else ["scipy"]
    for mn in mnames:
        for opt in opts:
            for be in (["numpy", "pytorch"] if tier == "thorough" else ["numpy"]):
                for st in STATS:
                    cases.append({"kind": "real", "model": mn, "optimizer": opt, "backend": be, "stat": st})
    for opt in opts:
        for st in STATS:
            for w_ in (0.8, 1.25):
                cases.append({"kind": "real", "model": "onoff", "optimizer": opt, "backend": "numpy", "stat": st, "hold_nuisance": w_})
    return dict(
        cases=cases, chunk=2,
        rule="scripted case = (backend, statistic, POI lower bound) x mu_hat in {-0.5,-1e-9,0,0.3,pred(mu),mu,succ(mu),mu+0.2,9} x gap in "
             "{-1e-9,0,1e-12,1e-6,2.7,25,1e3} x tested mu in {0,0.5,1,2}; real case = (closed-form model, optimiser, backend, statistic) x data lattice "
             "x mu grid incl. mu = mu_hat (Asimov data); non-trivial = at least one non-zero and one zeroed statistic value in the case; distinct = distinct case",
        alphabet={"stats": STATS, "mu_hat": "[-0.5,-1e-9,0,0.3,pred(mu),mu,succ(mu),mu+0.2,9]", "gap": [-1e-9, 0, 1e-12, 1e-6, 2.7, 25, 1e3], "mu": [0, 0.5, 1, 2],
                  "models": mnames},
        bound={},
        trusted_base=["mc/ref/stats.py", "mc/core/seams.ScriptedOptimizer"],
    )


def eval_case(case):
    return scripted(case) if case["kind"] == "scripted" else real(case)


def scripted(case):
    import pyhf

    be, st, lower = case["backend"], case["stat"], case["lower"]
    dtype = np.float32 if be.endswith("32") else np.float64
    issues, ncmp, dig = [], 0, []
    zeros = nonzeros = 0
    state = {}

    def answer(kind):
        if kind["fixed_poi"] is None:
            return [state["muhat"], 0.11], state["v0"]
        return [kind["fixed_poi"], 0.22], state["v0"] + state["gap"]

    opt = seams.ScriptedOptimizer(answer)
    pyhf.set_backend(C.BACKENDS[be][0], opt, precision=C.BACKENDS[be][1])
    tl = pyhf.tensorlib
    fn = statfn(st)
    try:
        for mu in (0.0, 0.5, 1.0, 2.0):
            f = dtype
            tn = float(np.finfo(f).tiny)  # denormal neighbours of 0 are flushed to zero by XLA/TF kernels: use the smallest normal number there
            muhats = [-0.5, -1e-9, 0.0, 0.3, float(np.nextafter(f(mu), f(-9))) if mu else -tn, mu, float(np.nextafter(f(mu), f(9))) if mu else tn, mu + 0.2, 9.0]
            muhats = [m for m in muhats if m >= lower]
            for muhat, gap in itertools.product(muhats, (-1e-9, 0.0, 1e-12, 1e-6, 2.7, 25.0, 1e3)):
                v0 = 0.0 if abs(gap) < 1e-3 else 17.5  # small gaps need an exactly representable difference
                state.update(muhat=float(f(muhat)), gap=float(f(gap)), v0=v0)
                opt.calls.clear()
                pdf = seams.FakePdf(npars=2, poi_bounds=(lower, 10))
                ctx = dict(backend=be, stat=st, lower=lower, mu=mu, muhat=state["muhat"], gap=state["gap"])
                args = ([1.0], pdf, pdf.config.suggested_init(), pdf.config.suggested_bounds(), pdf.config.suggested_fixed())
                try:
                    if st == "q0":
                        val, (fx, fr) = fn(mu, *args, return_fitted_pars=True)
                    else:
                        val, (fx, fr) = fn(mu, *args, return_fitted_pars=True)
                except Exception as e:
                    issues.append(C.issue(f"C06:scripted:{st}:{type(e).__name__}", f"statistic raised {e}"[:200], **ctx))
                    continue
                val = float(np.asarray(tl.tolist(val)))
                g = float(f(f(v0 + state["gap"]) - f(v0)))
                t = max(0.0, g)
                if st in ("q", "qtilde"):
                    exp = 0.0 if state["muhat"] > float(f(mu)) else t
                elif st == "q0":
                    exp = 0.0 if state["muhat"] < 0 else t
                else:
                    exp = t
                ncmp += 4
                if exp == 0.0:
                    zeros += 1
                else:
                    nonzeros += 1
                if not (val == exp or abs(val - exp) <= 4 * C.eps_of(be) * abs(exp)):
                    issues.append(C.issue(f"C06:value:{st}", f"{st}(mu={mu}) with mu_hat={state['muhat']!r}, gap={g!r}: got {val!r} expected {exp!r}", **ctx))
                if val < 0:
                    issues.append(C.issue(f"C06:negative:{st}", f"negative statistic {val!r}", **ctx))
                # which fits were requested
                want_fixed = 0.0 if st == "q0" else float(mu)
                fixed_calls = [c for c in opt.calls if c["fixed_poi"] is not None]
                free_calls = [c for c in opt.calls if c["fixed_poi"] is None]
                if len(fixed_calls) != 1 or len(free_calls) != 1 or fixed_calls[0]["fixed_poi"] != want_fixed:
                    issues.append(C.issue(f"C06:fits_requested:{st}", f"fits requested {[(c['data'], c['fixed_poi']) for c in opt.calls]}, expected one free fit and one fit "
                                          f"with the POI fixed at {want_fixed}", **ctx))
                # returned fitted vectors are exactly the two fit results
                fxl, frl = [float(x) for x in np.asarray(tl.tolist(fx))], [float(x) for x in np.asarray(tl.tolist(fr))]
                if not (np.allclose(fxl, [want_fixed, 0.22], rtol=1e-6) and np.allclose(frl, [state["muhat"], 0.11], rtol=1e-6, atol=1e-12)):
                    issues.append(C.issue(f"C06:fitted_pars:{st}", f"returned fitted parameters {fxl} / {frl}", **ctx))
                dig.append(val)
    finally:
        C.reset_backend()
    return dict(issues=issues, nontrivial=zeros > 0 and nonzeros > 0 or st in ("t", "ttilde"), outcome=digest(dig), comparisons=ncmp)


TOL = {"scipy": 2e-4, "minuit": 3e-3}


def real(case):
    import pyhf
    from pyhf.infer.mle import twice_nll

    mdl = models()[case["model"]]
    st, be = case["stat"], case["backend"]
    issues, ncmp, dig = [], 0, []
    zeros = nonzeros = 0
    C.set_backend(be, case["optimizer"])
    tl = pyhf.tensorlib
    try:
        m = pyhf.Model(mdl.spec(), poi_name="mu")
        assert list(m.config.par_order) == sorted(set(mdl.par_names())), m.config.par_order
        lower = -5.0 if st in ("q", "t") else 0.0
        bounds = m.config.suggested_bounds()
        bounds[m.config.poi_index] = (lower, 10.0)
        tol = TOL[case["optimizer"]]
        fn = statfn(st)
        init = m.config.suggested_init()
        fixedp = m.config.suggested_fixed()
        refmdl = mdl
        hold = case.get("hold_nuisance")
        if hold is not None:
            # the caller holds the nuisance constant at `hold` (init_pars + fixed_params): the statistic is that of the POI-only model with background hold*b
            init[1 - m.config.poi_index] = hold
            fixedp[1 - m.config.poi_index] = True
            refmdl = R.Counting("poi", s=[[mdl.s]], b=[[mdl.b * hold]])
        sets = [(d, None) for d in datasets(mdl, zero=(mdl.kind == "poi" or lower == 0.0))]
        for mu_a in (0.5, 1.0):  # Asimov data at mu_a: the best fit is mu_a exactly
            sets.append(([float(x) for x in mdl.expected_data(mu_a, hold if hold is not None else 1.0)][: mdl.nmain], mu_a))
        for main, mu_a in sets:
            data = list(main) + mdl.nominal_aux()
            for mu in (0.0, 0.25, 0.5, 1.0, 2.0, 4.0):
                ctx = dict(model=case["model"], optimizer=case["optimizer"], backend=be, stat=st, data=main, mu=mu, hold_nuisance=case.get("hold_nuisance"))
                try:
                    val, (fx, fr) = fn(mu, C.tens(data), m, init, bounds, fixedp, return_fitted_pars=True)
                except Exception as e:
                    issues.append(C.issue(f"C06:real:{st}:{type(e).__name__}:{case['optimizer']}", f"statistic raised on a well-posed closed-form model: {e}"[:200], **ctx))
                    continue
                val = float(np.asarray(tl.tolist(val)))
                mu_eff = 0.0 if st == "q0" else mu
                ncmp += 4
                # closed form
                t_ref, muhat_ref = refmdl.tmu(mu_eff, data[: refmdl.nmain] if refmdl is not mdl else data, (lower, 10.0))
                muhat = float(np.asarray(tl.tolist(fr))[m.config.poi_index])
                if st in ("q", "qtilde"):
                    ref = 0.0 if muhat_ref > mu else float(t_ref)
                    near = abs(float(muhat_ref) - mu) < 1e-3
                elif st == "q0":
                    ref = 0.0 if muhat_ref < 0 else float(t_ref)
                    near = abs(float(muhat_ref)) < 1e-3
                else:
                    ref, near = float(t_ref), False
                if val < 0:
                    issues.append(C.issue(f"C06:negative:{st}", f"negative statistic {val!r}", **ctx))
                if not abs(val - ref) <= tol + (float(t_ref) if near else 0.0):
                    issues.append(C.issue(f"C06:closed_form:{st}", f"{st}(mu={mu}) = {val!r}, closed form {ref!r} (mu_hat {float(muhat_ref):.6g}, fitted {muhat:.6g})", **ctx))
                # value equals the recomputed likelihood gap at the returned parameters, with the case rule applied to the returned mu_hat
                gap = float(np.ravel(tl.tolist(twice_nll(fx, C.tens(data), m)))[0]) - float(np.ravel(tl.tolist(twice_nll(fr, C.tens(data), m)))[0])
                t_here = max(0.0, gap)
                if st in ("q", "qtilde"):
                    exp = 0.0 if muhat > mu else t_here
                elif st == "q0":
                    exp = 0.0 if muhat < 0 else t_here
                else:
                    exp = t_here
                if not abs(val - exp) <= 1e-9 * (1 + abs(exp)) + (1e-5 if be != "numpy" else 0):
                    issues.append(C.issue(f"C06:definition:{st}", f"value {val!r} != case definition applied to the returned fits {exp!r} (gap {gap!r}, mu_hat {muhat!r})", **ctx))
                fxv = float(np.asarray(tl.tolist(fx))[m.config.poi_index])
                if fxv != mu_eff:
                    issues.append(C.issue(f"C06:fixed_poi_value:{st}", f"conditional fit returned POI {fxv!r}, tested value {mu_eff!r}", **ctx))
                if mu_a is not None and mu_eff == mu_a and not val <= tol:
                    issues.append(C.issue(f"C06:zero_at_bestfit:{st}", f"statistic {val!r} at the best-fit value mu={mu} (Asimov data)", **ctx))
                if val == 0.0:
                    zeros += 1
                else:
                    nonzeros += 1
                dig.append(round(val, 3))
    finally:
        C.reset_backend()
    return dict(issues=issues, nontrivial=zeros > 0 and nonzeros > 0 or st in ("t", "ttilde"), outcome=digest(dig), comparisons=ncmp)
