"""C12 — the model configuration is a consistent partition and honours overrides (DESIGN.md 4/C12)."""
from __future__ import annotations

import copy
import itertools
import json

import numpy as np

from mc.checks import common as C
from mc.core.run import digest
from mc.gen import lattices as L
from mc.gen import specspace as S
from mc.ref import histfactory as H

ID = "C12"
LEVEL = "exploration"
TECHNIQUE = "bounded exhaustive enumeration of specs x overrides x list permutations; reference parameter table by name + differential (permuted vs listed)"
PRELOAD = None
LEVEL_TEXT = ("Every spec with <=k deviations, every admissible measurement override on every parameter present, and every permutation of every "
              "single list (channels, samples, modifiers, measurement parameters, observations) is built with the real Model/Workspace; slices, "
              "suggestions, names, auxiliary layout are compared with a by-name parameter table written from the modifier documentation, "
              "permutations must give the identical configuration and bit-equal log-density, Workspace.data/build must reproduce layout and "
              "likelihood, and the caller's spec must be deep-equal afterwards.")
LEVEL_NOTE = "trusted: mc/ref/histfactory.paramsets (defaults table from the docs); numpy backend (no tensors are involved in the configuration)"


def plan(tier, seed):
    k = 2 if tier == "quick" else 3
    cases = []
    for r in range(k + 1):
        for c in S.all_cases(r, exact=True):
            cases.append({"skel": c["skel"], "combo": c["combo"], "seed": seed, "ov": None, "perms": "single" if r <= 2 else "channels",
                          "product": tier == "thorough" and r == 2 and c["skel"] in ("B2", "B3")})
        if r >= 1:
            for c in S.all_cases(r - 1, exact=True):
                _, spec = S.build(c["skel"], tuple(c["combo"]))
                for oi, _ in enumerate(S.override_menu(spec)):
                    cases.append({"skel": c["skel"], "combo": c["combo"], "seed": seed, "ov": oi, "perms": "params", "product": False})
    return dict(
        cases=cases, chunk=24,
        rule="spec = skeleton + <=k deviations (modifier attachments; one may be a measurement override of inits/bounds/fixed/auxdata/sigmas/"
             "factors on any parameter present); per spec: partition + suggestion table vs by-name reference, every permutation of each single "
             "list (and the full product of list permutations for k=2 specs of B2/B3 in the thorough tier), Workspace.data / Workspace.model / "
             "Workspace.build round trip, caller's spec unmodified; non-trivial = >=2 parameter sets; distinct = distinct (spec, override)",
        alphabet={"skeletons": list(S.SKEL), "override_keys": ["inits", "bounds", "fixed", "auxdata", "sigmas", "factors"]},
        bound={"deviations": k},
        trusted_base=["mc/ref/histfactory.paramsets"],
    )


def single_perms(spec, which):
    n = len(spec["channels"])
    for p in itertools.permutations(range(n)):
        if list(p) != list(range(n)):
            s = copy.deepcopy(spec)
            s["channels"] = [s["channels"][i] for i in p]
            yield ("channels", p), s
    if which == "channels":
        return
    for ci, c in enumerate(spec["channels"]):
        m = len(c["samples"])
        for p in itertools.permutations(range(m)):
            if list(p) != list(range(m)):
                s = copy.deepcopy(spec)
                s["channels"][ci]["samples"] = [s["channels"][ci]["samples"][i] for i in p]
                yield ("samples", ci, p), s
        for si, sm in enumerate(c["samples"]):
            k = len(sm["modifiers"])
            if 1 < k <= 4:
                for p in itertools.permutations(range(k)):
                    if list(p) != list(range(k)):
                        s = copy.deepcopy(spec)
                        s["channels"][ci]["samples"][si]["modifiers"] = [sm["modifiers"][i] for i in p]
                        yield ("mods", ci, si, p), s
    k = len(spec["parameters"])
    if 1 < k <= 3:
        for p in itertools.permutations(range(k)):
            if list(p) != list(range(k)):
                s = copy.deepcopy(spec)
                s["parameters"] = [spec["parameters"][i] for i in p]
                yield ("parameters", p), s


def product_perms(spec):
    """full product of permutations across channel list, each sample list, each modifier list (capped sizes <=3)."""
    chp = list(itertools.permutations(range(len(spec["channels"]))))
    smp = [list(itertools.permutations(range(len(c["samples"])))) for c in spec["channels"]]
    for cp in chp:
        for sps in itertools.product(*smp):
            s = copy.deepcopy(spec)
            for ci, sp in enumerate(sps):
                s["channels"][ci]["samples"] = [spec["channels"][ci]["samples"][i] for i in sp]
                for sm in s["channels"][ci]["samples"]:
                    sm["modifiers"] = list(reversed(sm["modifiers"]))
            s["channels"] = [s["channels"][i] for i in cp]
            yield ("product", cp, sps), s


def cfg_tuple(c):
    return (list(c.par_order), list(c.suggested_init()), [list(b) for b in c.suggested_bounds()], list(c.suggested_fixed()), list(c.auxdata),
            list(c.auxdata_order), list(c.channels), list(c.par_names), c.poi_index, {k: (v.start, v.stop) for k, v in c.channel_slices.items()})


def eval_case(case):
    import pyhf

    labels, spec = S.build(case["skel"], tuple(case["combo"]))
    if case.get("ov") is not None:
        item = S.override_menu(spec)[case["ov"]]
        spec = S.apply_override(spec, item)
        labels = labels + [item[0]]
    ps = H.paramsets(spec)
    issues, ncmp = [], 0
    ctx = dict(labels=labels)

    def bad(key, what, **kw):
        issues.append(C.issue(f"C12:{key}", what, **dict(ctx, **kw)))

    before = json.dumps(spec, sort_keys=True)
    m = pyhf.Model(spec, poi_name="mu")
    cfg = m.config
    if json.dumps(spec, sort_keys=True) != before:
        bad("mutated:Model", "pyhf.Model modified the caller's specification")
    if not spec["parameters"]:
        bare = {"channels": copy.deepcopy(spec["channels"])}  # the optional 'parameters' key left out by the caller
        b4 = json.dumps(bare, sort_keys=True)
        pyhf.Model(bare, poi_name="mu")
        ncmp += 1
        if json.dumps(bare, sort_keys=True) != b4:
            bad("mutated:Model:no_parameters_key", "pyhf.Model modified a caller's specification that has no 'parameters' key")
    # ---- partition
    pos = 0
    for name in cfg.par_order:
        sl = cfg.par_slice(name)
        ncmp += 1
        if sl.start != pos or sl.stop - sl.start != cfg.param_set(name).n_parameters or name not in ps or sl.stop - sl.start != ps[name]["n"]:
            bad("slice", f"slice of {name} is {sl}, expected start {pos} and {ps.get(name, {}).get('n')} components")
        pos = sl.stop
    if sorted(cfg.par_order) != sorted(ps):
        bad("par_order:set", f"par_order {cfg.par_order} != parameters of the spec {sorted(ps)}")
        return dict(issues=issues, nontrivial=True, outcome="bad", comparisons=ncmp)
    init, bnds, fixd, names = cfg.suggested_init(), cfg.suggested_bounds(), cfg.suggested_fixed(), cfg.par_names
    for lab, v in (("suggested_init", init), ("suggested_bounds", bnds), ("suggested_fixed", fixd), ("par_names", names)):
        ncmp += 1
        if pos != cfg.npars or len(v) != pos:
            bad(f"length:{lab}", f"{lab} has {len(v)} entries for {pos} parameter components (npars={cfg.npars})")
    if issues:
        return dict(issues=issues, nontrivial=True, outcome="bad", comparisons=ncmp)
    for name in cfg.par_order:
        sl, d = cfg.par_slice(name), ps[name]
        ncmp += 4
        if [float(x) for x in init[sl]] != [float(x) for x in d["inits"]]:
            bad("suggested_init", f"{name}: {init[sl]} expected {d['inits']}")
        if [[float(a), float(b)] for a, b in bnds[sl]] != [[float(a), float(b)] for a, b in d["bounds"]]:
            bad("suggested_bounds", f"{name}: {bnds[sl]} expected {d['bounds']}")
        if [bool(x) for x in fixd[sl]] != [bool(x) for x in d["fixed"]]:
            bad("suggested_fixed", f"{name}: {fixd[sl]} expected {d['fixed']}")
        exp_names = [name] if d["kind"] in ("alpha", "free1", "lumi") else [f"{name}[{i}]" for i in range(d["n"])]
        if list(names[sl]) != exp_names:
            bad("par_names", f"{name}: {names[sl]} expected {exp_names}")
    if cfg.poi_name != "mu" or cfg.poi_index != cfg.par_slice("mu").start:
        bad("poi", f"poi {cfg.poi_name}@{cfg.poi_index}")
    # ---- channel slices
    pos = 0
    nb = {c["name"]: H.nbins(c) for c in spec["channels"]}
    for ch in cfg.channels:
        sl = cfg.channel_slices[ch]
        ncmp += 1
        if sl.start != pos or sl.stop - sl.start != nb.get(ch):
            bad("channel_slice", f"{ch}: {sl}, expected start {pos} size {nb.get(ch)}")
        pos = sl.stop
    if pos != cfg.nmaindata or sorted(cfg.channels) != sorted(nb):
        bad("nmaindata", f"channel slices end at {pos}, nmaindata {cfg.nmaindata}, channels {cfg.channels}")
    # ---- auxiliary layout
    refaux = []
    for name in cfg.auxdata_order:
        refaux += [float(x) for x in ps[name]["auxdata"]]
    ncmp += 2
    if sorted(cfg.auxdata_order) != sorted(n for n, d in ps.items() if d["constraint"]):
        bad("auxdata_order", f"{cfg.auxdata_order}")
    elif len(cfg.auxdata) != len(refaux) or not np.allclose(cfg.auxdata, refaux, rtol=8 * C.EPS64, atol=0) or cfg.nauxdata != len(refaux):
        bad("auxdata", f"{cfg.auxdata} expected {refaux}")
    if issues:
        return dict(issues=issues, nontrivial=True, outcome="bad", comparisons=ncmp)
    # ---- constraint terms use the (overridden) values: one point against the reference likelihood
    vals = L.points(spec, case.get("seed", 0), ps, boundary=False)[2][1]
    pv = L.vector(cfg, vals)
    main = L.main_data(spec, "int", 0)
    aux = L.aux_data(spec, 1, ps)
    dv = L.data_vector(cfg, main, aux)
    l0 = float(m.logpdf(pv, dv)[0])
    tm = []
    ref = H.logpdf(spec, vals, main, aux, ps=ps, terms=tm)
    ncmp += 1
    if not abs(l0 - float(ref)) <= 64 * C.EPS64 * (float(sum(tm)) + 1):
        bad("logpdf", f"logpdf {l0!r} expected {float(ref)!r}")
    # ---- permutations
    base = cfg_tuple(cfg)
    gens = [single_perms(spec, case["perms"] if case["perms"] != "params" else "single")]
    if case.get("product"):
        gens.append(product_perms(spec))
    nperm = 0
    for g in gens:
        for lab, sp in g:
            nperm += 1
            ncmp += 2
            try:
                m2 = pyhf.Model(sp, poi_name="mu")
            except Exception as e:
                bad(f"perm:build:{type(e).__name__}", f"permutation {lab} refused: {e}"[:200])
                continue
            if cfg_tuple(m2.config) != base:
                bad(f"perm:config:{lab[0]}", f"permutation {lab} changes the configuration")
                continue
            l2 = float(m2.logpdf(pv, dv)[0])
            if l2 != l0:
                bad(f"perm:logpdf:{lab[0]}", f"permutation {lab}: logpdf {l2!r} != {l0!r}")
    # ---- workspace layer
    nmeas = 2
    for oi, operm in enumerate(itertools.permutations(range(len(spec["channels"])))):
        wsd = S.workspace(spec, obs=main, measurements=nmeas)
        wsd["observations"] = [wsd["observations"][i] for i in operm]
        if oi % 2 == 1:
            wsd["measurements"][1]["config"]["parameters"] = list(reversed(wsd["measurements"][1]["config"]["parameters"]))
        b4 = json.dumps(wsd, sort_keys=True)
        try:
            ws = pyhf.Workspace(wsd)
            mw = ws.model(measurement_name="meas1" if oi % 2 else "meas", poi_name="mu")
            dw = ws.data(mw)
        except Exception as e:
            bad(f"workspace:{type(e).__name__}", f"workspace/model/data raised {e}"[:200], obs_perm=list(operm))
            continue
        ncmp += 4
        if json.dumps(wsd, sort_keys=True) != b4:
            bad("mutated:Workspace", "pyhf.Workspace modified the caller's document")
        if cfg_tuple(mw.config) != base:
            bad("workspace:config", "Workspace.model gives a different configuration than Model(spec)", obs_perm=list(operm))
            continue
        expd = [float(x) for ch in cfg.channels for x in main[ch]] + [float(x) for x in cfg.auxdata]
        if [float(x) for x in dw] != expd:
            bad("workspace:data", f"Workspace.data {list(dw)} expected {expd}", obs_perm=list(operm))
        dno = ws.data(mw, include_auxdata=False)
        if [float(x) for x in dno] != expd[: cfg.nmaindata]:
            bad("workspace:data_noaux", f"Workspace.data(include_auxdata=False) {list(dno)}")
        if float(mw.logpdf(pv, dv)[0]) != l0:
            bad("workspace:logpdf", "Workspace.model logpdf differs from Model(spec) logpdf")
    # ---- build round trip
    ncmp += 1
    datav = [float(x) for ch in cfg.channels for x in main[ch]] + list(cfg.auxdata)
    try:
        wb = pyhf.Workspace.build(m, datav)
        m3 = wb.model()
        d3 = wb.data(m3)
    except Exception as e:
        kinds = sorted({d["kind"] for d in ps.values()})
        mixed = any(len(set(d["fixed"])) > 1 for d in ps.values())
        cls = "lumi" if "lumi" in kinds and isinstance(e, TypeError) else ("mixed-fixed" if mixed and isinstance(e, RuntimeError) else "other")
        bad(f"build:{cls}:{type(e).__name__}", f"Workspace.build round trip raised {type(e).__name__}: {e}"[:200])
    else:
        ncmp += 3
        if [float(x) for x in d3] != [float(x) for x in datav]:
            bad("build:data", f"rebuilt data {list(d3)} != {datav}")
        if cfg_tuple(m3.config) != base:
            a, b = cfg_tuple(m3.config), base
            fields = ["par_order", "init", "bounds", "fixed", "auxdata", "auxdata_order", "channels", "par_names", "poi_index", "channel_slices"]
            diff = [f for f, x, y in zip(fields, a, b) if x != y]
            bad("build:config:" + "+".join(diff), f"rebuilt model configuration differs in {diff}")
        else:
            l3 = float(m3.logpdf(pv, dv)[0])
            if not abs(l3 - l0) <= 8 * C.EPS64 * (abs(l0) + 1):
                bad("build:logpdf", f"rebuilt model logpdf {l3!r} != {l0!r}")
    return dict(issues=issues, nontrivial=len(ps) >= 2, outcome=digest([base, round(l0, 6), nperm]), comparisons=ncmp)
