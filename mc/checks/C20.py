"""C20 — structurally inconsistent specifications are refused (DESIGN.md 4/C20).

Fault enumeration: every single structural fault of the listed classes at every applicable position
of every spec with <=k deviations (pairs of faults in the thorough tier).  Oracle: construction must
raise an exception whose class is defined in pyhf.exceptions.
"""
from __future__ import annotations

import copy

from mc.checks import common as C
from mc.core.run import digest
from mc.gen import specspace as S
from mc.ref import histfactory as H

ID = "C20"
LEVEL = "fault_enumeration"
TECHNIQUE = "exhaustive single-fault (and fault-pair) injection at every position of every spec in the bounded spec space"
PRELOAD = None
LEVEL_TEXT = ("Every structural fault class named by the property is injected at every applicable position of every spec with <=k deviations, "
              "through pyhf.Model and Workspace.model; each faulted spec must be refused with a pyhf exception type, the un-faulted spec must "
              "construct. Accepted faulted models are diagnosed with the reference interpreter to say what was dropped or mis-bound.")
LEVEL_NOTE = "trusted: the fault injector (each fault class is written from the property text; legit sharing cases are excluded, see DESIGN.md C20 fine print)"


def faults(spec):
    """yield (key tuple, faulted spec). Each faulted spec passes the JSON schema but is structurally inconsistent."""
    def cp():
        return copy.deepcopy(spec)

    chans = spec["channels"]
    for ci, c in enumerate(chans):
        for where in ("after", "end", "front"):
            s = cp()
            d = copy.deepcopy(c)
            for sm in d["samples"]:
                sm["data"] = [x + 1 for x in sm["data"]]
                for mm in sm["modifiers"]:
                    if mm["type"] == "shapesys":
                        mm["name"] = mm["name"] + "_dup"
            pos = {"after": ci + 1, "end": len(chans), "front": 0}[where]
            s["channels"].insert(pos, d)
            yield ("a_dup_channel", where), s
    # (d2) compensating length faults: one non-leading sample one bin too long in one channel and one bin too short in another
    for ci, c in enumerate(chans):
        for cj, c2 in enumerate(chans):
            if ci == cj:
                continue
            for si, sm in enumerate(c["samples"]):
                sj = next((j for j, x in enumerate(c2["samples"]) if x["name"] == sm["name"]), None)
                if si == 0 or sj in (None, 0) or len(c2["samples"][sj]["data"]) < 2:
                    continue
                s = cp()
                for (a, b, delta) in ((ci, si, 1), (cj, sj, -1)):
                    t = s["channels"][a]["samples"][b]
                    t["data"] = t["data"] + [1.0] if delta > 0 else t["data"][:-1]
                    for mm in t["modifiers"]:
                        if mm["type"] in ("shapesys", "staterror"):
                            mm["data"] = mm["data"] + [1.0] if delta > 0 else mm["data"][:-1]
                        if mm["type"] == "histosys":
                            for k in ("lo_data", "hi_data"):
                                mm["data"][k] = mm["data"][k] + [1.0] if delta > 0 else mm["data"][k][:-1]
                yield ("d_sample_len", "compensating"), s
    for ci, c in enumerate(chans):
        nbc = len(c["samples"][0]["data"])
        for si, sm in enumerate(c["samples"]):
            # (b) duplicate sample name in the channel, different content
            s = cp()
            d = copy.deepcopy(sm)
            d["data"] = [x + 2 for x in d["data"]]
            d["modifiers"] = [mm for mm in d["modifiers"] if mm["type"] != "shapesys"]
            s["channels"][ci]["samples"].append(d)
            yield ("b_dup_sample",), s
            # (d) sample length != channel bin count (channels with >=2 samples: the first sample defines the count)
            if len(c["samples"]) > 1:
                for delta in ("longer", "shorter"):
                    if delta == "shorter" and nbc == 1:
                        continue
                    s = cp()
                    t = s["channels"][ci]["samples"][si]
                    t["data"] = sm["data"] + [1.0] if delta == "longer" else sm["data"][:-1]
                    for mm in t["modifiers"]:  # keep modifier data consistent with the *sample* so only the sample/channel mismatch remains
                        if mm["type"] in ("shapesys", "staterror"):
                            mm["data"] = mm["data"] + [1.0] if delta == "longer" else mm["data"][:-1]
                        if mm["type"] == "histosys":
                            for k in ("lo_data", "hi_data"):
                                mm["data"][k] = mm["data"][k] + [1.0] if delta == "longer" else mm["data"][k][:-1]
                    yield ("d_sample_len", delta), s
            for mi, m in enumerate(sm["modifiers"]):
                t = m["type"]
                # (c) one (name,type) twice on a sample with different data
                if t in ("normsys", "histosys", "shapesys", "staterror"):
                    for pos in ("after", "before"):
                        s = cp()
                        d = copy.deepcopy(m)
                        if t == "normsys":
                            d["data"] = {"lo": 0.5, "hi": 1.5}
                        elif t == "histosys":
                            d["data"] = {"lo_data": [x * 0.5 for x in sm["data"]], "hi_data": [x * 1.5 for x in sm["data"]]}
                        else:
                            d["data"] = [x * 0.33 for x in sm["data"]]
                        mods = s["channels"][ci]["samples"][si]["modifiers"]
                        mods.insert(mi + 1 if pos == "after" else mi, d)
                        yield ("c_dup_modifier", t), s
                # (c') the same, on a *later carrier* of a modifier shared between samples: the modifier is first shared (legally) with
                # every other sample in turn, and the duplicate with different data goes on whichever carrier comes second in spec order
                if t in ("normsys", "histosys"):
                    for cj, chj in enumerate(spec["channels"]):
                        for sj, smj in enumerate(chj["samples"]):
                            if (cj, sj) == (ci, si) or any((x["name"], x["type"]) == (m["name"], t) for x in smj["modifiers"]):
                                continue
                            s = cp()
                            shared = copy.deepcopy(m)
                            dup = copy.deepcopy(m)
                            if t == "normsys":
                                dup["data"] = {"lo": 0.5, "hi": 1.5}
                            else:
                                shared["data"] = {"lo_data": [x * 0.8 for x in smj["data"]], "hi_data": [x * 1.2 for x in smj["data"]]}
                            later = max((ci, si), (cj, sj))
                            tgt = s["channels"][later[0]]["samples"][later[1]]
                            if t == "histosys":
                                dup["data"] = {"lo_data": [x * 0.5 for x in tgt["data"]], "hi_data": [x * 1.5 for x in tgt["data"]]}
                            s["channels"][cj]["samples"][sj]["modifiers"].append(shared)
                            tgt["modifiers"].append(dup)
                            yield ("c_dup_modifier", t, "shared_later_carrier"), s
                # (e) modifier data length != bin count
                if t == "histosys":
                    for keys in (("lo_data",), ("hi_data",), ("lo_data", "hi_data")):
                        for delta in ("longer", "shorter"):
                            if delta == "shorter" and nbc == 1:
                                continue
                            s = cp()
                            for key in keys:
                                v = m["data"][key]
                                s["channels"][ci]["samples"][si]["modifiers"][mi]["data"][key] = v + [1.0] if delta == "longer" else v[:-1]
                            yield ("e_modlen", t, "+".join(keys)), s
                if t in ("shapesys", "staterror"):
                    for delta in ("longer", "shorter"):
                        if delta == "shorter" and nbc == 1:
                            continue
                        s = cp()
                        s["channels"][ci]["samples"][si]["modifiers"][mi]["data"] = m["data"] + [1.0] if delta == "longer" else m["data"][:-1]
                        yield ("e_modlen", t), s
                # (h) one parameter name with conflicting constraint type or size
                for t2 in ("normsys", "normfactor", "shapefactor", "shapesys", "staterror", "histosys"):
                    if t2 == t or {t, t2} == {"normsys", "histosys"}:
                        continue
                    if {t, t2} <= {"shapefactor"}:
                        continue
                    data = {"normsys": {"lo": 0.9, "hi": 1.1}, "normfactor": None, "shapefactor": None, "lumi": None,
                            "shapesys": [1.0] * len(sm["data"]), "staterror": [1.0] * len(sm["data"]),
                            "histosys": {"lo_data": list(sm["data"]), "hi_data": list(sm["data"])}}[t2]
                    # a one-bin shapefactor and a normfactor are the same parameter set (unconstrained, size 1): legitimate
                    if {t, t2} == {"normfactor", "shapefactor"} and nbc == 1:
                        continue
                    for cj, c2 in enumerate(chans):
                        for sj, sm2 in enumerate(c2["samples"]):
                            if (cj, sj) != (ci, si) and not (cj == (ci + 1) % len(chans) and sj == 0):
                                continue
                            d2 = data
                            if t2 in ("shapesys", "staterror"):
                                d2 = [1.0] * len(sm2["data"])
                            if t2 == "histosys":
                                d2 = {"lo_data": list(sm2["data"]), "hi_data": list(sm2["data"])}
                            if {t, t2} == {"normfactor", "shapefactor"} and len(sm2["data"]) == 1 and t2 == "shapefactor":
                                continue
                            if any(x["name"] == m["name"] and x["type"] == t2 for x in sm2["modifiers"]):
                                continue
                            s = cp()
                            s["channels"][cj]["samples"][sj]["modifiers"].append({"name": m["name"], "type": t2, "data": d2})
                            if t2 == "lumi" and not any(p["name"] == m["name"] for p in s["parameters"]):
                                s["parameters"].append(dict(S.LUMI_CFG, name=m["name"]))
                            yield ("h_conflict", t, t2, "samecell" if (cj, sj) == (ci, si) else "othercell"), s
                # (i) override of the wrong length
                n = 1 if t in ("normsys", "histosys", "normfactor", "lumi") else nbc
                keys = ["inits", "bounds"]
                if t in ("normsys", "histosys", "staterror", "shapesys", "lumi"):
                    keys.append("auxdata")
                if t in ("staterror", "lumi"):
                    keys.append("sigmas")
                if t == "shapesys":
                    keys.append("factors")
                for key in keys:
                    for ln in (n + 1, n - 1):
                        if ln < 1:
                            continue
                        val = [[0.1, 9.0]] * ln if key == "bounds" else [1.0] * ln
                        s = cp()
                        have = [p for p in s["parameters"] if p["name"] == m["name"]]
                        if have:
                            have[0][key] = val
                        else:
                            s["parameters"].append({"name": m["name"], key: val})
                        yield ("i_override_len", t, key), s
                # (k) lumi modifier without (complete) lumi settings
                if t == "lumi":
                    s = cp()
                    s["parameters"] = [p for p in s["parameters"] if p["name"] != m["name"]]
                    yield ("k_lumi_nocfg", "missing"), s
                    for drop in ("auxdata", "sigmas", "inits", "bounds"):
                        s = cp()
                        for p in s["parameters"]:
                            if p["name"] == m["name"]:
                                p.pop(drop, None)
                        yield ("k_lumi_nocfg", "partial:" + drop), s
                # (l) duplicate parameter configuration
                s = cp()
                s["parameters"] = [p for p in s["parameters"] if p["name"] != m["name"]] + [
                    dict(next((p for p in spec["parameters"] if p["name"] == m["name"]), {"name": m["name"]}), fixed=True),
                    dict(next((p for p in spec["parameters"] if p["name"] == m["name"]), {"name": m["name"]}), fixed=False)]
                yield ("l_dup_parcfg",), s
                # (f) bin-wise modifier shared between places with different bin counts / (g) staterror on samples with different coverage
                if t in ("shapefactor", "staterror"):
                    for cj, c2 in enumerate(chans):
                        if cj == ci:
                            continue
                        for sj, sm2 in enumerate(c2["samples"]):
                            if any(x["name"] == m["name"] for x in sm2["modifiers"]):
                                continue
                            rel = "same" if len(sm2["data"]) == len(sm["data"]) else ("bigger" if len(sm2["data"]) > len(sm["data"]) else "smaller")
                            same_sample = sm2["name"] == sm["name"]
                            if t == "shapefactor" and rel == "same":
                                continue  # legitimate sharing
                            if t == "staterror" and same_sample:
                                continue  # defined by pyhf as independent per-(channel, bin) parameters; not a fault (DESIGN fine print)
                            s = cp()
                            data = None if t == "shapefactor" else [0.1 * x for x in sm2["data"]]
                            s["channels"][cj]["samples"][sj]["modifiers"].append({"name": m["name"], "type": t, "data": data})
                            yield (("f_shapefactor_share" if t == "shapefactor" else "g_staterror_share"), rel), s
                if t == "shapesys":
                    for cj, c2 in enumerate(chans):
                        for sj, sm2 in enumerate(c2["samples"]):
                            if (cj, sj) == (ci, si):
                                continue
                            s = cp()
                            s["channels"][cj]["samples"][sj]["modifiers"].append({"name": m["name"], "type": "shapesys", "data": [0.1 * x for x in sm2["data"]]})
                            yield ("m_shapesys_reuse", "samechannel" if cj == ci else "otherchannel"), s


def shape_signature(o):
    """structure of a spec with every number replaced by 0 (names, types and all list lengths kept)."""
    if isinstance(o, dict):
        return {k: shape_signature(v) for k, v in sorted(o.items())}
    if isinstance(o, list):
        return [shape_signature(v) for v in o]
    if isinstance(o, (int, float)) and not isinstance(o, bool):
        return 0
    return o


def lengths_consistent(spec):
    for c in spec["channels"]:
        nb = len(c["samples"][0]["data"])
        for s_ in c["samples"]:
            if len(s_["data"]) != nb:
                return False
            for m_ in s_["modifiers"]:
                d = m_.get("data")
                if m_["type"] == "histosys" and (len(d["lo_data"]) != nb or len(d["hi_data"]) != nb):
                    return False
                if m_["type"] in ("shapesys", "staterror") and len(d) != nb:
                    return False
    return True


def outcome_of(fn):
    import pyhf

    try:
        m = fn()
        return "ACCEPTED", m
    except Exception as e:
        own = isinstance(e, tuple(v for v in vars(pyhf.exceptions).values() if isinstance(v, type) and issubclass(v, Exception)))
        return ("pyhf:" if own else "OTHER:") + type(e).__name__, None


def diagnose(fs, m):
    """say what an accepted inconsistent model does with the declared content."""
    try:
        cfg = m.config
        decl = {c["name"] for c in fs["channels"]}
        notes = [f"channels={cfg.channels} nmaindata={cfg.nmaindata} npars={cfg.npars} par_order={cfg.par_order}"]
        nch = len(fs["channels"])
        if len(cfg.channels) < nch:
            notes.append(f"{nch} channels declared, {len(cfg.channels)} kept: content dropped")
        return "; ".join(notes)[:300]
    except Exception as e:  # pragma: no cover
        return f"diagnosis failed: {e}"


def plan(tier, seed):
    k = 1 if tier == "quick" else 2
    cases = []
    for r in range(k + 1):
        for c in S.all_cases(r, exact=True):
            cases.append({"skel": c["skel"], "combo": c["combo"], "pairs": tier == "thorough" and r <= 1})
    return dict(
        cases=cases, chunk=4 if tier == "quick" else 8,
        rule="per spec (skeleton + <=k deviations): the spec itself must construct; then every single fault of classes (a)-(m) at every applicable "
             "position, through pyhf.Model(spec, poi_name) and Workspace(spec+observations).model(); undefined POI (j); thorough: every ordered pair "
             "of faults on specs with <=1 deviation. non-trivial = case injects >=1 fault; distinct = distinct spec",
        alphabet={"fault_classes": ["a_dup_channel", "b_dup_sample", "c_dup_modifier", "d_sample_len", "e_modlen", "f_shapefactor_share",
                                    "g_staterror_share", "h_conflict", "i_override_len", "j_undefined_poi", "k_lumi_nocfg", "l_dup_parcfg",
                                    "m_shapesys_reuse"]},
        bound={"deviations": k, "fault_pairs_on_k<=": 1 if tier == "thorough" else None},
        trusted_base=["fault injector mc/checks/C20.py:faults"],
    )


def eval_case(case):
    import pyhf

    labels, spec = S.build(case["skel"], tuple(case["combo"]))
    issues, counts = [], {}
    n = 0
    o, _ = outcome_of(lambda: pyhf.Model(spec, poi_name="mu"))
    if o != "ACCEPTED":
        issues.append(C.issue(f"C20:unfaulted:{o}", "the un-faulted spec does not construct", labels=labels))

    def judge(key, fs, extra=""):
        nonlocal n
        n += 1
        for entry, fn in (("Model", lambda: pyhf.Model(fs, poi_name="mu")),
                          ("Workspace.model", lambda: pyhf.Workspace(S.workspace(fs)).model())):
            o, m = outcome_of(fn)
            counts[(key[0], o)] = counts.get((key[0], o), 0) + 1
            if o.startswith("pyhf:"):
                continue
            k = "C20:" + ":".join(str(x) for x in key) + ":" + o
            what = (f"fault {key} {'accepted by' if o == 'ACCEPTED' else 'answered with ' + o + ' by'} {entry}{extra}"
                    + (" -- " + diagnose(fs, m) if m is not None else ""))
            issues.append(C.issue(k, what, labels=labels, entry=entry, fault=list(key)))
            break

    flist = list(faults(spec))
    for key, fs in flist:
        judge(key, fs)
    # (j) undefined POI
    n += 1
    o, _ = outcome_of(lambda: pyhf.Model(spec, poi_name="nope"))
    counts[("j_undefined_poi", o)] = counts.get(("j_undefined_poi", o), 0) + 1
    if not o.startswith("pyhf:"):
        issues.append(C.issue(f"C20:j_undefined_poi:{o}", "undefined POI name not refused", labels=labels))
    wsd = S.workspace(spec, poi="nope")
    o, _ = outcome_of(lambda: pyhf.Workspace(wsd).model())
    if not o.startswith("pyhf:"):
        issues.append(C.issue(f"C20:j_undefined_poi:workspace:{o}", "undefined POI name in a measurement not refused", labels=labels))
    if case.get("pairs"):
        sig0 = shape_signature(spec)
        for key1, fs1 in flist:
            try:
                second = list(faults(fs1))
            except Exception:
                continue
            for key2, fs2 in second:
                if shape_signature(fs2) == sig0:
                    continue  # the second fault undid the first (e.g. one bin longer, then one bin shorter): a consistent spec again
                if key1[0] in ("d_sample_len", "e_modlen") and key2[0] in ("d_sample_len", "e_modlen") and lengths_consistent(fs2):
                    continue  # two length changes that add up to a consistent channel with a different bin count
                n += 1
                o, m = outcome_of(lambda: pyhf.Model(fs2, poi_name="mu"))
                counts[("pair", o)] = counts.get(("pair", o), 0) + 1
                if not o.startswith("pyhf:"):
                    k = f"C20:pair:{key1[0]}+{key2[0]}:{o}"
                    issues.append(C.issue(k, f"fault pair {key1}+{key2} -> {o}", labels=labels))
    return dict(issues=issues, nontrivial=n > 1, outcome=digest(sorted((a, b, c) for (a, b), c in counts.items())), comparisons=2 * n,
                extra={"counts": {f"{a}|{b}": c for (a, b), c in counts.items()}})


def finalize(results, plan, cases):
    tot = {}
    for r in results:
        for k, v in (r.get("extra") or {}).get("counts", {}).items():
            tot[k] = tot.get(k, 0) + v
    return {"outcomes_by_fault_class": dict(sorted(tot.items()))}
