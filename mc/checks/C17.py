"""C17 — patch sets look up, verify and apply patches exactly (DESIGN.md 4/C17)."""
from __future__ import annotations

import copy
import hashlib
import itertools
import json

from mc.checks import common as C
from mc.core.run import digest
from mc.gen import specspace as S

ID = "C17"
LEVEL = "fault_enumeration"
TECHNIQUE = ("exhaustive enumeration of patch-set documents (all ordered patch lists up to length 3 over a name/value alphabet) against a dict reference; "
             "every single-leaf corruption and key reordering of verified workspaces; all RFC-6902 operation lists up to length 2 against a reference interpreter")
PRELOAD = None
LEVEL_TEXT = ("Acceptance and lookup: every document of the bounded space is fed to the real PatchSet and compared with a plain dict model (accept iff names and "
              "value tuples are pairwise distinct and of the right arity; every key of the alphabet, as list and as tuple, plus junk keys). Verification: every "
              "single-leaf corruption of each verified workspace must be detected under every digest set, every key reordering must still verify. "
              "Apply: every operation list up to length 2 over {add, replace, remove, move, copy, test} x valid/invalid paths is compared with a 60-line "
              "RFC-6902 interpreter; the background must be deep-equal afterwards.")
LEVEL_NOTE = "trusted: hashlib, python dict semantics (1 == 1.0, as in JSON), the RFC-6902 reference interpreter in this file"

NAMES = ["a", "b", "name", "values", "metadata", "patch", "_x"]
VALUES = [(1,), (2,), (1, 2), ("x", 1), (1.0,), (2, 1)]


def meta(labels, digests=None):
    return {"references": {"hepdata": "ins1234567"}, "description": "d", "digests": digests or {"md5": "0" * 32}, "labels": labels}


def doc(patches, labels):
    return {"metadata": meta(labels), "version": "1.0.0",
            # every second patch has an empty operation list (schema-valid: a grid point that changes nothing)
            "patches": [{"metadata": {"name": n, "values": list(v)}, "patch": ([{"op": "add", "path": f"/x{i}", "value": i}] if i % 2 == 0 else [])}
                        for i, (n, v) in enumerate(patches)]}


def base_workspaces():
    out = []
    for sk, labels in (("B1", ["normsys:n1@c0/bkg"]), ("B2", ["staterror@ab/bkg", "histosys:h1@zc/sig"])):
        m = S.menu(sk)
        combo = tuple(sorted(next(i for i, it in enumerate(m) if it[0] == lab) for lab in labels))
        _, spec = S.build(sk, combo)
        spec["parameters"] = [{"name": "mu", "bounds": [[0.0, 8.0]], "inits": [1.0], "fixed": False}]
        out.append(S.workspace(spec, measurements=2))
    w = copy.deepcopy(out[0])
    w["measurements"][1]["name"] = "mesure_\u00e9\u03bc"   # non-ASCII text is legal JSON: the digest is over the UTF-8 encoding
    for c in w["channels"]:
        for s_ in c["samples"]:
            if s_["name"] == "bkg":
                s_["name"] = "bkg_\u03c4\u03c4"
    out.append(w)
    return out


def plan(tier, seed):
    cases = []
    pairs = [(n, v) for n in NAMES for v in VALUES]
    small = [(n, v) for n in NAMES[:4] for v in VALUES[:3]]
    for nl in (1, 2):
        labels = ["x", "y"][:nl]
        for L in (1, 2):
            for combo in itertools.product(range(len(pairs)), repeat=L):
                cases.append({"kind": "doc", "labels": labels, "patches": list(combo), "alphabet": "full"})
        src = pairs if tier == "thorough" else small
        for combo in itertools.product(range(len(src)), repeat=3):
            cases.append({"kind": "doc", "labels": labels, "patches": list(combo), "alphabet": "full" if tier == "thorough" else "small"})
    for wi in range(3):
        for algs in (["sha256"], ["md5"], ["sha256", "md5"]):
            cases.append({"kind": "verify", "ws": wi, "algs": algs})
        if wi < 2:
            cases.append({"kind": "apply", "ws": wi, "maxlen": 2})
    return dict(
        cases=cases, chunk=256,
        rule="doc case = one ordered patch list (length <=3, repetition allowed) over 7 names x 6 value tuples, with 1 or 2 labels: acceptance + every lookup key; "
             "verify case = (workspace, digest algorithms): every single-leaf corruption and every key reordering; apply case = every RFC-6902 op list up to "
             "length 2 from a 14-op menu incl. invalid paths and failing tests; non-trivial = document accepted with >=2 patches / corruption detected; distinct = distinct case",
        alphabet={"names": NAMES, "values": [list(v) for v in VALUES]},
        bound={"patches_per_document": 3, "op_list_length": 2},
        trusted_base=["hashlib", "dict", "RFC-6902 reference interpreter (this file)"],
    )


def eval_case(case):
    return {"doc": ev_doc, "verify": ev_verify, "apply": ev_apply}[case["kind"]](case)


def ev_doc(case):
    import pyhf

    pairs = [(n, v) for n in NAMES for v in VALUES] if case["alphabet"] == "full" else [(n, v) for n in NAMES[:4] for v in VALUES[:3]]
    patches = [pairs[i] for i in case["patches"]]
    labels = case["labels"]
    issues, ncmp = [], 0
    # ---- reference: a dict
    ref_ok = True
    table = {}
    order = []
    for n, v in patches:
        if n in table or v in table or len(v) != len(labels):
            ref_ok = False
            break
        table[n] = len(order)
        table[v] = len(order)
        order.append(n)
    d = doc(patches, labels)
    before = json.dumps(d, sort_keys=True)
    ctx = dict(labels=labels, patches=[[n, list(v)] for n, v in patches])
    try:
        ps = pyhf.PatchSet(d)
        got_ok = True
    except pyhf.exceptions.InvalidPatchSet:
        got_ok = False
    except Exception as e:
        return dict(issues=[C.issue(f"C17:construct:{type(e).__name__}", f"PatchSet raised {type(e).__name__}: {e}"[:200], **ctx)], nontrivial=False, outcome="exc", comparisons=1)
    ncmp += 1
    if got_ok != ref_ok:
        return dict(issues=[C.issue("C17:accept" if ref_ok else "C17:reject", f"document {'rejected' if ref_ok else 'accepted'} but its names/value tuples are "
                                    f"{'pairwise distinct' if ref_ok else 'not pairwise distinct or of wrong arity'}", **ctx)], nontrivial=False,
                    outcome="mismatch", comparisons=ncmp)
    if json.dumps(d, sort_keys=True) != before:
        issues.append(C.issue("C17:mutated:document", "PatchSet modified the document", **ctx))
    if not got_ok:
        return dict(issues=issues, nontrivial=False, outcome="rejected", comparisons=ncmp)
    ncmp += 2
    if len(ps) != len(order) or [p.name for p in ps] != order:
        issues.append(C.issue("C17:iter", f"len/iter order {[p.name for p in ps]} expected {order}", **ctx))
    keys = list(NAMES) + ["zz", "", "nam", 0, 1, None] + [v for v in VALUES] + [list(v) for v in VALUES] + [(), (3,), (1, 2, 3), ("x",), ("name",), ("values",)]
    for k in keys:
        ncmp += 1
        hk = tuple(k) if isinstance(k, list) else k
        exp = table.get(hk) if not isinstance(hk, (int, type(None))) or hk in table else None
        try:
            got = ps[k]
            gi = next((i for i, p in enumerate(ps) if p is got), "foreign object")
        except pyhf.exceptions.InvalidPatchLookup:
            gi = None
        except Exception as e:
            issues.append(C.issue(f"C17:lookup:{type(e).__name__}", f"lookup of {k!r} raised {type(e).__name__}", **ctx))
            continue
        if gi != exp:
            issues.append(C.issue("C17:lookup", f"lookup of {k!r} gives {'patch ' + str(gi) if gi is not None else 'InvalidPatchLookup'}, "
                                  f"expected {'patch ' + str(exp) if exp is not None else 'InvalidPatchLookup'}", **ctx))
    return dict(issues=issues, nontrivial=len(order) >= 2, outcome=digest([ref_ok, len(order)]), comparisons=ncmp)


def ref_digest(obj, alg):
    return getattr(hashlib, alg)(json.dumps(obj, sort_keys=True, ensure_ascii=False).encode("utf8")).hexdigest()


def leaves(o, path=()):
    if isinstance(o, dict):
        for k in o:
            yield from leaves(o[k], path + (k,))
    elif isinstance(o, list):
        yield path, "len"
        for i, v in enumerate(o):
            yield from leaves(v, path + (i,))
    else:
        yield path, "leaf"


def corrupt(ws, path, kind):
    w = copy.deepcopy(ws)
    tgt = w
    for p in path[:-1]:
        tgt = tgt[p]
    if kind == "len":
        lst = tgt[path[-1]] if path else w
        if lst:
            lst.append(copy.deepcopy(lst[-1]))
        else:
            lst.append(0)
        return [w]
    v = tgt[path[-1]]
    out = []
    if isinstance(v, bool):
        tgt[path[-1]] = not v
        out.append(w)
    elif isinstance(v, (int, float)):
        for nv in (v + 1, v * (1 + 1e-12) if v else 1e-300, -v if v else 0.5):
            w2 = copy.deepcopy(w)
            t2 = w2
            for p in path[:-1]:
                t2 = t2[p]
            t2[path[-1]] = nv
            if nv != v:
                out.append(w2)
    elif isinstance(v, str):
        for nv in (v + "x", v + "\u00e9", "\u03bc" + v[1:], v[:-1] + "\u03c4"):
            w2 = copy.deepcopy(w)
            t2 = w2
            for p in path[:-1]:
                t2 = t2[p]
            t2[path[-1]] = nv
            if nv != v:
                out.append(w2)
    elif v is None:
        tgt[path[-1]] = 0
        out.append(w)
    return out


def reorder(o):
    if isinstance(o, dict):
        return {k: reorder(o[k]) for k in reversed(list(o))}
    if isinstance(o, list):
        return [reorder(x) for x in o]
    return o


def ev_verify(case):
    import pyhf

    ws = base_workspaces()[case["ws"]]
    algs = case["algs"]
    issues, ncmp = [], 0
    digs = {a: ref_digest(ws, a) for a in algs}
    d = doc([("a", (1,))], ["x"])
    d["metadata"]["digests"] = digs
    ps = pyhf.PatchSet(d)
    ctx = dict(ws=case["ws"], algs=algs)
    detected = 0
    # the workspace itself and every key reordering verify
    for lab, w in (("as is", ws), ("keys reversed", reorder(ws)), ("Workspace object", pyhf.Workspace(ws))):
        ncmp += 1
        try:
            ps.verify(w)
        except Exception as e:
            issues.append(C.issue("C17:verify:false_negative", f"verification of the recorded workspace ({lab}) failed: {type(e).__name__}", **ctx))
    for a in algs:
        ncmp += 1
        if pyhf.utils.digest(ws, algorithm=a) != digs[a] or pyhf.utils.digest(reorder(ws), algorithm=a) != digs[a]:
            issues.append(C.issue("C17:digest", f"utils.digest({a}) differs from the reference digest / depends on key order", **ctx))
    # every single-leaf corruption is detected
    for path, kind in leaves(ws):
        for w in corrupt(ws, path, kind):
            ncmp += 1
            try:
                ps.verify(w)
                issues.append(C.issue("C17:verify:corruption_missed", f"corruption at {list(path)} ({kind}) verifies", **ctx))
            except pyhf.exceptions.PatchSetVerificationError:
                detected += 1
            except Exception as e:
                issues.append(C.issue(f"C17:verify:{type(e).__name__}", f"corruption at {list(path)}: raised {type(e).__name__}", **ctx))
    # every listed algorithm counts: one wrong digest among several must fail
    if len(algs) > 1:
        for bad in algs:
            d2 = copy.deepcopy(d)
            d2["metadata"]["digests"][bad] = ("0" * len(digs[bad]))
            ncmp += 1
            try:
                pyhf.PatchSet(d2).verify(ws)
                issues.append(C.issue("C17:verify:algorithm_ignored", f"wrong {bad} digest not noticed (other digests correct)", **ctx))
            except pyhf.exceptions.PatchSetVerificationError:
                detected += 1
    return dict(issues=issues, nontrivial=detected > 0, outcome=digest([case["ws"], algs, detected]), comparisons=ncmp)


# ----------------------------------------------------------------------------- RFC 6902 reference interpreter
class PatchError(Exception):
    pass


def _ptr(path):
    if path == "":
        return []
    if not path.startswith("/"):
        raise PatchError("pointer")
    return [p.replace("~1", "/").replace("~0", "~") for p in path[1:].split("/")]


def _walk(doc, parts):
    cur = doc
    for p in parts:
        if isinstance(cur, list):
            if not p.isdigit() or int(p) >= len(cur):
                raise PatchError("index")
            cur = cur[int(p)]
        elif isinstance(cur, dict):
            if p not in cur:
                raise PatchError("member")
            cur = cur[p]
        else:
            raise PatchError("scalar")
    return cur


def _add(doc, parts, value):
    if not parts:
        return value
    parent = _walk(doc, parts[:-1])
    k = parts[-1]
    if isinstance(parent, list):
        if k == "-":
            parent.append(value)
        elif k.isdigit() and int(k) <= len(parent):
            parent.insert(int(k), value)
        else:
            raise PatchError("index")
    elif isinstance(parent, dict):
        parent[k] = value
    else:
        raise PatchError("scalar")
    return doc


def _remove(doc, parts):
    parent = _walk(doc, parts[:-1])
    k = parts[-1]
    if isinstance(parent, list):
        if not k.isdigit() or int(k) >= len(parent):
            raise PatchError("index")
        return parent.pop(int(k))
    if isinstance(parent, dict):
        if k not in parent:
            raise PatchError("member")
        return parent.pop(k)
    raise PatchError("scalar")


def apply_ref(doc, ops):
    doc = copy.deepcopy(doc)
    for op in ops:
        parts = _ptr(op["path"])
        o = op["op"]
        if o == "add":
            doc = _add(doc, parts, copy.deepcopy(op["value"]))
        elif o == "remove":
            _remove(doc, parts)
        elif o == "replace":
            _walk(doc, parts)
            if parts:
                _remove(doc, parts)
            doc = _add(doc, parts, copy.deepcopy(op["value"]))
        elif o == "test":
            if _walk(doc, parts) != op["value"]:
                raise PatchError("test")
        elif o == "move":
            fp = _ptr(op["from"])
            if parts[: len(fp)] == fp and len(parts) > len(fp):
                raise PatchError("move into child")
            v = _remove(doc, fp)
            doc = _add(doc, parts, v)
        elif o == "copy":
            v = copy.deepcopy(_walk(doc, _ptr(op["from"])))
            doc = _add(doc, parts, v)
    return doc


def op_menu(ws):
    nm = ws["channels"][0]["samples"][-1]["name"]
    other = copy.deepcopy(ws)
    other["channels"][0]["name"] = "replaced_" + other["channels"][0]["name"]
    for o in other["observations"]:
        if o["name"] == ws["channels"][0]["name"]:
            o["name"] = other["channels"][0]["name"]
    other["channels"][0]["samples"][0]["data"][0] += 1.5
    return [
        {"op": "replace", "path": "/channels/0/samples/0/data/0", "value": 3.25},
        {"op": "add", "path": "/channels/0/samples/0/modifiers/-", "value": {"name": "extra", "type": "normsys", "data": {"lo": 0.9, "hi": 1.1}}},
        {"op": "add", "path": "/channels/0/samples/0/modifiers/0", "value": {"name": "first", "type": "normfactor", "data": None}},
        {"op": "remove", "path": "/channels/0/samples/0/modifiers/0"},
        {"op": "remove", "path": "/measurements/1"},
        {"op": "replace", "path": "/measurements/0/config/poi", "value": "mu"},
        {"op": "replace", "path": "/observations/0/data/1", "value": 7.0},
        {"op": "copy", "from": "/measurements/0/config/parameters/0", "path": "/measurements/1/config/parameters/0"},
        {"op": "move", "from": "/channels/0/samples/0/data/1", "path": "/channels/0/samples/0/data/0"},
        {"op": "test", "path": "/channels/0/samples/-1/name".replace("-1", str(len(ws["channels"][0]["samples"]) - 1)), "value": nm},
        {"op": "test", "path": "/version", "value": "0.0.0"},
        {"op": "remove", "path": "/channels/7"},
        {"op": "replace", "path": "/nothing/here", "value": 1},
        {"op": "add", "path": "/channels/0/samples/0/data/9", "value": 1.0},
        # whole-document replacement (RFC 6902: the empty pointer is the root), a patched-in channel with its observation,
        # a new sample, and an operation whose result is not a workspace (sample without a name): the returned object must be
        # the validated Workspace *of the patched document* (summaries included), not of the background
        {"op": "replace", "path": "", "value": other},
        {"op": "add", "path": "/channels/-", "value": {"name": "patched_in", "samples": [{"name": "psig", "data": [2.0, 3.0], "modifiers": [{"name": "mu", "type": "normfactor", "data": None}]}]}},
        {"op": "add", "path": "/observations/-", "value": {"name": "patched_in", "data": [4.0, 6.0]}},
        {"op": "add", "path": "/channels/0/samples/-", "value": {"name": "patched_sample", "data": list(ws["channels"][0]["samples"][0]["data"]), "modifiers": [{"name": "k_new", "type": "normfactor", "data": None}]}},
        {"op": "remove", "path": "/channels/0/samples/0/name"},
    ]


WS_SUMMARIES = ("channels", "samples", "parameters", "modifiers", "observations", "measurement_names", "channel_nbins", "version")


def ev_apply(case):
    import jsonpatch
    import pyhf

    ws = base_workspaces()[case["ws"]]
    issues, ncmp = [], 0
    menu = op_menu(ws)
    applied = failed = 0
    ctx0 = dict(ws=case["ws"])
    for L in range(0, case["maxlen"] + 1):
        for combo in itertools.product(range(len(menu)), repeat=L):
            ops = [menu[i] for i in combo]
            d = {"metadata": meta(["x"], {"sha256": ref_digest(ws, "sha256"), "md5": ref_digest(ws, "md5")}), "version": "1.0.0",
                 "patches": [{"metadata": {"name": "p", "values": [1]}, "patch": copy.deepcopy(ops)}]}
            ps = pyhf.PatchSet(d)
            bg = copy.deepcopy(ws)
            ctx = dict(ctx0, ops=[(o["op"], o["path"]) for o in ops])
            try:
                ref = apply_ref(ws, ops)
                ref_ok = True
            except PatchError:
                ref_ok = False
            ncmp += 2
            for key in ("p", [1]):
                try:
                    got = ps.apply(bg, key)
                    got_ok = True
                except (jsonpatch.JsonPatchException, jsonpatch.JsonPointerException, pyhf.exceptions.InvalidSpecification, pyhf.exceptions.InvalidWorkspaceOperation):
                    got_ok, got = False, None
                except Exception as e:
                    issues.append(C.issue(f"C17:apply:{type(e).__name__}", f"apply raised {type(e).__name__}: {e}"[:160], **ctx))
                    continue
                if bg != ws:
                    issues.append(C.issue("C17:apply:background_modified", "apply modified the background workspace", **ctx))
                    bg = copy.deepcopy(ws)
                if got_ok and not ref_ok:
                    issues.append(C.issue("C17:apply:accepted_invalid", "operation list that RFC 6902 rejects was applied", **ctx))
                elif got_ok:
                    if not isinstance(got, pyhf.Workspace):
                        issues.append(C.issue("C17:apply:type", f"apply returned {type(got).__name__}", **ctx))
                    if json.loads(json.dumps(got)) != ref:
                        issues.append(C.issue("C17:apply:result", "applied workspace differs from the RFC 6902 result", **ctx))
                    try:
                        refws = pyhf.Workspace(copy.deepcopy(ref))
                    except Exception:
                        refws = None
                        issues.append(C.issue("C17:apply:invalid_result_returned", "apply returned a Workspace object for a patched document that is not a valid workspace", **ctx))
                    if refws is not None and isinstance(got, pyhf.Workspace):
                        for attr in WS_SUMMARIES:
                            ncmp += 1
                            if getattr(got, attr, None) != getattr(refws, attr, None):
                                issues.append(C.issue(f"C17:apply:summary:{attr}", f"returned Workspace.{attr} is not that of the patched document: "
                                                      f"{getattr(got, attr, None)!r} vs {getattr(refws, attr, None)!r}"[:200], **ctx))
                    applied += 1
                elif ref_ok:
                    # pyhf may still refuse a schema-invalid result; check that the reference result is indeed not a valid workspace
                    try:
                        pyhf.Workspace(copy.deepcopy(ref))
                        issues.append(C.issue("C17:apply:refused_valid", "valid operation list with a valid result was refused", **ctx))
                    except Exception:
                        failed += 1
                else:
                    failed += 1
    # histories on ONE PatchSet object: every sequence of length <=3 over {apply good, apply corrupted, verify good, verify corrupted};
    # the outcome of each operation must not depend on the operations before it (verification is never cached)
    w2 = copy.deepcopy(ws)
    w2["observations"][0]["data"][0] += 1
    good_patch = [menu[0]]
    dd = {"metadata": meta(["x"], {"sha256": ref_digest(ws, "sha256")}), "version": "1.0.0", "patches": [{"metadata": {"name": "p", "values": [1]}, "patch": good_patch}]}
    expected_ok = {"apply_good": True, "apply_bad": False, "verify_good": True, "verify_bad": False}
    for L in (1, 2, 3):
        for seq in itertools.product(list(expected_ok), repeat=L):
            psx = pyhf.PatchSet(copy.deepcopy(dd))
            for step, op in enumerate(seq):
                target = copy.deepcopy(ws if op.endswith("good") else w2)
                ncmp += 1
                try:
                    if op.startswith("apply"):
                        psx.apply(target, "p")
                    else:
                        psx.verify(target)
                    ok = True
                except pyhf.exceptions.PatchSetVerificationError:
                    ok = False
                except Exception as e:
                    issues.append(C.issue(f"C17:history:{type(e).__name__}", f"{op} raised {type(e).__name__} after {list(seq[:step])}", **ctx0))
                    break
                if ok != expected_ok[op]:
                    issues.append(C.issue("C17:history:" + ("unverified_accepted" if ok else "verified_refused"),
                                          f"{op} {'succeeds' if ok else 'is refused'} after {list(seq[:step])} on the same PatchSet object", **dict(ctx0, sequence=list(seq))))
                    break
    return dict(issues=issues, nontrivial=applied > 0 and failed > 0, outcome=digest([case["ws"], applied, failed]), comparisons=ncmp)
