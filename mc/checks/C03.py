"""C03 — interpolation codes realise their defining piecewise functions (DESIGN.md 4/C03)."""
from __future__ import annotations

import itertools

import mpmath as mp
import numpy as np

from mc.checks import common as C
from mc.core.run import digest
from mc.ref import histfactory as H

ID = "C03"
LEVEL = "model_checking"
TECHNIQUE = ("exhaustive alpha/triple lattice (breakpoints and their floating-point neighbours) against mpmath formulae; "
             "explicit-state BFS over call-shape histories of one interpolator, every state compared with a fresh interpolator")
PRELOAD = None
LEVEL_TEXT = ("Values: every code x {vectorised, scalar} x every down/nominal/up triple class x the whole alpha lattice (core, both extrapolation "
              "sides, +-1/+-alpha0 and their floating-point neighbours, denormals, +-0) on all 8 backend/precision pairs is one enumerated case, "
              "compared with the published formulae in mpmath (code-4 coefficients from an exact solve of the boundary conditions), plus "
              "continuity, C1/C2 (one-sided differences of the implementation), slopes/exponents, neutrality and up/down reproduction. "
              "Histories: breadth-first search over all call sequences with alpha-set shapes (2,1),(2,3),(2,7) to depth 3 (4 thorough), optionally "
              "interleaved with a precision switch, on the real interpolator object; each reached state must evaluate bit-identically to a fresh "
              "interpolator.")
LEVEL_NOTE = "trusted: mpmath; the formulae transcribed in mc/ref/histfactory.py; alpha between lattice points is not covered"

CODES = [0, 1, 2, 4, "4p"]
ADDITIVE = {0: "code0", 2: "code2", "4p": "code4p"}
MULT = {1: "code1", 4: "code4"}
# triple classes (down, nominal, up): symmetric, asymmetric, inverted, null, large ratio, tiny variation
TRIPLES_ADD = [(8.0, 10.0, 12.0), (8.0, 10.0, 13.0), (13.0, 10.0, 8.0), (10.0, 10.0, 10.0), (0.5, 10.0, 40.0), (10.0 - 1e-7, 10.0, 10.0 + 3e-7),
               (9.0, 10.0, 11.5), (2.0, 3.0, 3.5), (7.0, 5.0, 9.0), (8.0, 10.0, 10.0), (10.0, 10.0, 12.5)]  # last two: one-sided variations
TRIPLES_MUL = [(0.9, 1.0, 1.1), (0.8, 1.0, 1.3), (1.2, 1.0, 0.7), (1.0, 1.0, 1.0), (0.5, 1.0, 2.5), (1 - 1e-7, 1.0, 1 + 3e-7),
               (4.5, 5.0, 6.0), (2.7, 3.0, 3.2), (5.5, 5.0, 4.0), (0.85, 1.0, 1.0), (1.0, 1.0, 1.2)]


def alpha_lattice(dtype, a0=1.0):
    f = np.dtype(dtype).type
    tiny = np.nextafter(f(0), f(1))
    base = [0.0, 1e-12, 0.25, 0.5, 0.75, 1.5, 2.0, 5.0, 30.0]
    out = [f(0.0), -f(0.0), tiny, -tiny]
    for b in base[1:]:
        out += [f(b * a0), f(-b * a0)]
    for b in (f(a0), f(-a0)):
        out += [np.nextafter(b, f(0)), b, np.nextafter(b, f(4) * np.sign(b))]
        for e in (10, 12, 14):
            h = f(2.0 ** -e)
            out += [b - 2 * h, b - h, b + h, b + 2 * h]
    return np.array(out, dtype=dtype)


def histsets(code, which):
    """(2 systs, 2 histos, 3 (dn,nom,up), 3 bins) from the triple menu; `which` rotates the menu."""
    tr = TRIPLES_ADD if code in ADDITIVE else TRIPLES_MUL
    n = len(tr)
    hs = np.zeros((2, 2, 3, 3))
    for s in range(2):
        for h in range(2):
            for b in range(3):
                t = tr[(which * 4 + s * 5 + h * 2 + b) % n]
                hs[s, h, :, b] = t
    return hs


def plan(tier, seed):
    cases = []
    backends = ["numpy", "numpy32", "pytorch", "pytorch32", "jax", "jax32", "tensorflow", "tensorflow32"]
    nsets = 4 if tier == "quick" else 11
    for be in backends:
        for code in CODES:
            for a0 in ([1.0, 0.5] if code == 4 else [1.0]):
                for w in range(nsets):
                    cases.append({"kind": "values", "code": code, "backend": be, "set": w, "a0": a0, "big": tier == "thorough" and w == 0})
            cases.append({"kind": "history", "code": code, "backend": be, "depth": 3 if tier == "quick" else 4})
    return dict(
        cases=cases, chunk=4,
        rule="values: one case = (code, backend/precision, histogram set built from the triple menu, alpha0) evaluated on the full alpha lattice "
             "(row 0 = lattice, row 1 = reversed lattice) with the vectorised and the scalar implementation; history: BFS over call sequences "
             "with alpha-set shapes {(2,1),(2,3),(2,7)} and an optional precision switch; non-trivial = non-null variation in the set; "
             "distinct = distinct case",
        alphabet={"codes": [str(c) for c in CODES], "triples_add": TRIPLES_ADD, "triples_mul": TRIPLES_MUL,
                  "alpha_lattice_64b": [float(x) for x in alpha_lattice(np.float64)], "history_shapes": [[2, 1], [2, 3], [2, 7]]},
        bound={"history_depth": 3 if tier == "quick" else 4, "histogram_sets": nsets},
        trusted_base=["mpmath", "mc/ref/histfactory.py interpolation formulae"],
    )


def ref_value(code, a, dn, nom, up, a0=1.0):
    if code in ADDITIVE:
        return H.interp_add(ADDITIVE[code], a, dn, nom, up)
    return H.interp_mul(MULT[code], a, H.M(dn) / H.M(nom), H.M(up) / H.M(nom), a0)


def scale_of(code, a, dn, nom, up, r, a0=1.0):
    a = abs(float(a))
    if code in ADDITIVE:
        return abs(float(r)) + (a + a * a * (a <= 1)) * (abs(dn) + abs(nom) + abs(up)) + 1e-300
    lr = abs(float(mp.log(H.M(up) / H.M(nom)))) + abs(float(mp.log(H.M(dn) / H.M(nom))))
    if code == 4 and a < a0:
        c = H.code4_coeffs(H.M(up) / H.M(nom), H.M(dn) / H.M(nom), a0)
        return 1.0 + float(sum(abs(ci) * H.M(a) ** (i + 1) for i, ci in enumerate(c))) + lr
    return abs(float(r)) * (1.0 + a * lr)


def eval_case(case):
    import pyhf
    from pyhf import interpolators

    be = case["backend"]
    eps = C.eps_of(be)
    dtype = np.float32 if be.endswith("32") else np.float64
    tl = C.set_backend(be)
    issues, ncmp, dig = [], 0, []
    try:
        code = case["code"]
        if case["kind"] == "history":
            return history(case, interpolators, tl, dtype)
        a0 = case["a0"]
        hs = histsets(code, case["set"]).astype(dtype).astype(np.float64)  # oracle sees the values the backend sees
        if case.get("big"):
            hs = np.concatenate([hs, hs[:1] * 1.0], axis=0)[:, :, :, :]
        A = alpha_lattice(dtype, a0)
        rows = [A, A[::-1]] + ([np.roll(A, 3)] if hs.shape[0] == 3 else [])
        al = np.array(rows, dtype=dtype)
        kw = {"alpha0": a0} if code == 4 else {}
        out = {}
        for fast in (True, False):
            it = interpolators.get(code, do_tensorized_calc=fast)(hs.tolist(), **kw)
            res = np.asarray(tl.tolist(it(tl.astensor(al))), dtype=np.float64)
            if res.shape != (hs.shape[0], hs.shape[1], al.shape[1], hs.shape[3]):
                issues.append(C.issue(f"C03:shape:code{code}", f"result shape {res.shape}", **case))
                continue
            out[fast] = res
        ctx = dict(code=str(code), backend=be, set=case["set"], a0=a0)
        K = 64
        nontrivial = False
        # the scalar implementation works in python floats whatever the backend precision -> compare it at 64b accuracy only on 64b backends
        for fast, res in out.items():
            e = eps if (fast or not be.endswith("32")) else C.EPS32
            for s in range(hs.shape[0]):
                for h in range(hs.shape[1]):
                    for b in range(hs.shape[3]):
                        dn, nom, up = hs[s, h, :, b]
                        if dn != nom or up != nom:
                            nontrivial = True
                        for ai, a in enumerate(al[s]):
                            a = float(a)
                            r = ref_value(code, a, dn, nom, up, a0)
                            sc = scale_of(code, a, dn, nom, up, r, a0)
                            g = res[s, h, ai, b]
                            ncmp += 1
                            if not abs(g - float(r)) <= K * e * sc + float(np.finfo(dtype).tiny) * (1 + sc):  # absolute floor: results in the denormal range may be flushed to zero
                                issues.append(C.issue(f"C03:value:code{code}:{'fast' if fast else 'slow'}",
                                                      f"code {code} ({'vectorised' if fast else 'scalar'}) at alpha={a!r} triple=({dn},{nom},{up}): "
                                                      f"{g!r} expected {float(r)!r} (scaled err {abs(g - float(r)) / sc:.3g})", **ctx))
                                break
                            # neutrality exactly at +-0
                            if a == 0.0:
                                neutral = 0.0 if code in ADDITIVE else 1.0
                                if g != neutral:
                                    issues.append(C.issue(f"C03:neutral:code{code}", f"value at alpha=0 is {g!r}, not exactly {neutral}", **ctx))
                        else:
                            continue
                        break
        if True in out and False in out:
            ncmp += 1
            f_, s_ = out[True], out[False]
            tolm = 16 * (C.EPS32 if be.endswith("32") else eps)
            if not np.all(np.abs(f_ - s_) <= tolm * (np.abs(s_) + _absmag(hs, al, code))):
                i = np.unravel_index(np.argmax(np.abs(f_ - s_)), f_.shape)
                issues.append(C.issue(f"C03:fast_vs_slow:code{code}", f"vectorised {f_[i]!r} vs scalar {s_[i]!r} at index {tuple(int(x) for x in i)} "
                                      f"alpha={float(al[i[0]][i[2]])!r}", **ctx))
        # implementation-only structure checks on the vectorised result (row 0 carries the lattice in order)
        if True in out:
            res = out[True]
            idx = {float(a): i for i, a in enumerate(A)}
            f = dtype
            for s, h, b in itertools.product([0], range(hs.shape[1]), range(hs.shape[3])):
                dn, nom, up = hs[s, h, :, b]
                val = lambda a: res[s, h, idx[float(a)], b]
                sc1 = abs(dn) + abs(nom) + abs(up) if code in ADDITIVE else max(abs(val(f(a0))), abs(val(f(-a0))), 1.0)
                # reproduces up at +1 and down at -1 (alpha0 = 1)
                if a0 == 1.0:
                    ncmp += 2
                    upv, dnv = (up - nom, dn - nom) if code in ADDITIVE else (up / nom, dn / nom)
                    if not abs(val(f(1)) - upv) <= K * eps * sc1:
                        issues.append(C.issue(f"C03:up_at_plus1:code{code}", f"value at alpha=+1 {val(f(1))!r} != up variation {upv!r}", **ctx))
                    if not abs(val(f(-1)) - dnv) <= K * eps * sc1:
                        issues.append(C.issue(f"C03:down_at_minus1:code{code}", f"value at alpha=-1 {val(f(-1))!r} != down variation {dnv!r}", **ctx))
                for bp in (f(a0), f(-a0)):
                    lo, hi = np.nextafter(bp, f(-40)), np.nextafter(bp, f(40))
                    ncmp += 1
                    # continuity where the pieces meet: neighbours differ by O(slope * ulp)
                    slope = abs(val(f(2 * bp)) - val(bp)) / a0 + sc1
                    if not (abs(val(hi) - val(bp)) <= 16 * eps * slope * 8 and abs(val(bp) - val(lo)) <= 16 * eps * slope * 8):
                        issues.append(C.issue(f"C03:continuity:code{code}", f"jump at alpha={float(bp)}: f(pred)={val(lo)!r} f={val(bp)!r} f(succ)={val(hi)!r}", **ctx))
                    if code in (4, "4p") and not be.endswith("32"):
                        for e_ in (10, 12):
                            hh = f(2.0 ** -e_)
                            d1p = (val(bp + hh) - val(bp)) / hh
                            d1m = (val(bp) - val(bp - hh)) / hh
                            d2p = (val(bp + 2 * hh) - 2 * val(bp + hh) + val(bp)) / hh ** 2
                            d2m = (val(bp) - 2 * val(bp - hh) + val(bp - 2 * hh)) / hh ** 2
                            rv = lambda a: ref_value(code, a, dn, nom, up, a0)
                            r1 = abs((rv(bp + hh) - rv(bp)) / hh - (rv(bp) - rv(bp - hh)) / hh)
                            r2 = abs((rv(bp + 2 * hh) - 2 * rv(bp + hh) + rv(bp)) / hh ** 2 - (rv(bp) - 2 * rv(bp - hh) + rv(bp - 2 * hh)) / hh ** 2)
                            ncmp += 2
                            if not abs(d1p - d1m) <= 2 * float(r1) + 64 * eps * sc1 / float(hh) + 1e-300:
                                issues.append(C.issue(f"C03:C1:code{code}", f"first derivative jumps at alpha={float(bp)}: {d1m!r} | {d1p!r} (h=2^-{e_})", **ctx))
                            if not abs(d2p - d2m) <= 2 * float(r2) + 256 * eps * sc1 / float(hh) ** 2 + 1e-300:
                                issues.append(C.issue(f"C03:C2:code{code}", f"second derivative jumps at alpha={float(bp)}: {d2m!r} | {d2p!r} (h=2^-{e_})", **ctx))
                # extrapolation: slope (additive) / exponent (multiplicative) of the matching side
                for sgn in (1, -1):
                    a2, a5 = f(sgn * 2.0 * a0), f(sgn * 5.0 * a0)
                    ncmp += 1
                    if code in ADDITIVE:
                        got = (val(a5) - val(a2)) / (3 * a0) * sgn
                        if code == 2:
                            aa, bb = 0.5 * (up + dn) - nom, 0.5 * (up - dn)
                            exp = bb + 2 * aa if sgn > 0 else bb - 2 * aa
                            exp = exp * sgn * sgn
                            got = (val(a5) - val(a2)) / (a5 - a2)
                        else:
                            exp = (up - nom) if sgn > 0 else (nom - dn)
                            got = (val(a5) - val(a2)) / (a5 - a2)
                        if not abs(got - exp) <= 256 * eps * sc1:
                            issues.append(C.issue(f"C03:extrapolation_slope:code{code}", f"slope beyond {sgn * a0:+}: {got!r} expected {exp!r}", **ctx))
                    else:
                        base = up / nom if sgn > 0 else dn / nom
                        exp = base ** (3 * a0)
                        got = val(a5) / val(a2)
                        if not abs(got - exp) <= 256 * eps * abs(exp) * (1 + 5 * abs(np.log(base))):
                            issues.append(C.issue(f"C03:extrapolation_exponent:code{code}", f"ratio f(5a0)/f(2a0) on side {sgn:+}: {got!r} expected {exp!r}", **ctx))
            dig.append(round(float(np.sum(res)), 6))
    finally:
        C.reset_backend()
    return dict(issues=issues, nontrivial=nontrivial, outcome=digest(dig), comparisons=ncmp)


def _absmag(hs, al, code):
    m = np.abs(hs).sum(axis=2)  # (s,h,b)
    a = np.abs(al)
    return (1 + a + a * a * (a <= 1))[:, None, :, None] * m[:, :, None, :] if code in ADDITIVE else np.ones((hs.shape[0], hs.shape[1], al.shape[1], hs.shape[3]))


SHAPES = [(2, 1), (2, 3), (2, 7)]


def alphas_for(shape, dtype, salt):
    n = shape[1]
    vals = np.array([[-1.7, -1.0, -0.3, 0.0, 0.45, 1.0, 2.2][: n] if n > 1 else [0.8], [1.3, -0.6, 1.0, -2.5, 0.0, 0.2, -1.0][: n] if n > 1 else [-1.4]])
    return (vals + 0.01 * salt).astype(dtype)


def history(case, interpolators, tl, dtype):
    """BFS over call sequences; state = shapes cached by the interpolator (canonical form: the last shape, since a correct
    interpolator's future depends on nothing else) -- but the invariant is checked on *every* history, not per merged state."""
    import pyhf

    code, be = case["code"], case["backend"]
    hs = histsets(code, 1).astype(dtype).astype(np.float64).tolist()
    issues, ncmp, states, trans = [], 0, set(), 0
    other = "numpy32" if be == "numpy" else "numpy"
    ops = [("call", i) for i in range(len(SHAPES))] + [("switch", 0)]
    frontier = [[]]
    nhist = 0
    for depth in range(1, case["depth"] + 1):
        nxt = []
        for hist in frontier:
            for op in ops:
                if op[0] == "switch" and (not hist or hist[-1][0] == "switch" or depth == case["depth"]):
                    continue
                h2 = hist + [op]
                nxt.append(h2)
                if op[0] == "switch":
                    continue
                # replay the history on a new interpolator (live objects are not copied), then compare with a fresh one
                C.set_backend(be)
                it = interpolators.get(code)(hs)
                cur = be
                last = None
                for j, (kind, arg) in enumerate(h2):
                    if kind == "switch":
                        C.set_backend(other)
                        C.set_backend(be)
                        continue
                    al = pyhf.tensorlib.astensor(alphas_for(SHAPES[arg], dtype, j))
                    last = (np.asarray(pyhf.tensorlib.tolist(it(al))), al)
                fresh = interpolators.get(code)(hs)
                ref = np.asarray(pyhf.tensorlib.tolist(fresh(last[1])))
                trans += 1
                nhist += 1
                ncmp += 1
                states.add(tuple(x for x in h2 if x[0] == "call")[-1:] + (("sw",) if any(x[0] == "switch" for x in h2) else ()))
                if last[0].shape != ref.shape or not np.array_equal(last[0], ref):
                    issues.append(C.issue(f"C03:history:code{code}", f"after call history {h2} the interpolator returns a value different from a fresh one "
                                          f"(shape {last[0].shape} vs {ref.shape})", code=str(code), backend=be, history=[list(x) for x in h2]))
        frontier = nxt
    C.reset_backend()
    return dict(issues=issues, nontrivial=True, outcome=digest([str(code), be, nhist]), comparisons=ncmp, trans=trans,
                extra={"states": len(states), "histories": nhist})


def finalize(results, plan, cases):
    st = sum((r.get("extra") or {}).get("states", 0) for r in results)
    hi = sum((r.get("extra") or {}).get("histories", 0) for r in results)
    tr = sum(r.get("trans", 0) for r in results)
    sample = [{"history": [["call", [2, 1]], ["switch", "precision and back"], ["call", [2, 7]]], "oracle": "bit-equal to a fresh interpolator"}]
    return {"states": max(st, 1), "transitions": max(tr, 1), "traces_validated_against_impl": hi,
            "explanation": "states = (code, backend, last call shape, switched?) classes reached; every history (not only every state) is executed on the "
                           "real interpolator and compared with a fresh one"}
