"""setup_cmd: offline self test (nothing is built; checks are pure Python run by /venv/bin/python)."""
import compileall, importlib, json, os, shutil, subprocess, sys

ROOT = os.path.dirname(os.path.dirname(os.path.dirname(os.path.abspath(__file__))))


def main():
    ok = compileall.compile_dir(os.path.join(ROOT, "mc"), quiet=1)
    for m in ("pyhf", "numpy", "scipy", "mpmath", "jsonschema"):
        importlib.import_module(m)
    import pyhf
    assert os.path.realpath(pyhf.__file__).startswith("/repo/src"), pyhf.__file__
    json.load(open(os.path.join(ROOT, "known_findings.json")))
    man = json.load(open(os.path.join(ROOT, "MANIFEST.json")))
    for c in man["checks"]:
        importlib.import_module(f"mc.checks.{c['property_id']}")
    for tool in ("tlc",):
        if shutil.which(tool) is None:
            print("missing tool", tool); ok = False
    os.makedirs(os.path.join(ROOT, "evidence"), exist_ok=True)
    print("selftest", "ok" if ok else "FAILED")
    return 0 if ok else 1
