"""Regenerates MANIFEST.json checks/not_applicable from the check modules present (run by hand: python -m mc.core.manifest_tool)."""
import importlib, json, os, sys
ROOT = os.path.dirname(os.path.dirname(os.path.dirname(os.path.abspath(__file__))))
sys.path.insert(0, ROOT)

def main():
    props = [json.loads(l) for l in open(os.path.join(ROOT, "properties.jsonl"))]
    man = json.load(open(os.path.join(ROOT, "MANIFEST.json")))
    checks, na = [], []
    for p in props:
        pid = p["id"]
        path = os.path.join(ROOT, "mc", "checks", pid + ".py")
        if not os.path.exists(path):
            na.append({"property_id": pid, "reason": "check not built yet in this round (planned in DESIGN.md section 4); no claim is made"})
            continue
        mod = importlib.import_module(f"mc.checks.{pid}")
        if getattr(mod, "DISABLED", None):
            na.append({"property_id": pid, "reason": mod.DISABLED}); continue
        checks.append({
            "property_id": pid,
            "quick_cmd": f"./vcheck {pid} --tier quick",
            "thorough_cmd": f"./vcheck {pid} --tier thorough",
            "evidence_file": f"evidence/{pid}.json",
            "replay_cmd_template": f"./vcheck {pid} --replay {{path}}",
            "engine": "vcheck",
            "level_claimed": {"category": mod.LEVEL, "text": mod.LEVEL_TEXT, "design_ref": f"DESIGN.md 4/{pid}"},
            "level_note": mod.LEVEL_NOTE,
            "technique": mod.TECHNIQUE,
        })
    man["checks"], man["not_applicable"] = checks, na
    json.dump(man, open(os.path.join(ROOT, "MANIFEST.json"), "w"), indent=1)
    import jsonschema
    jsonschema.validate(man, json.load(open("/root/.vp/MANIFEST.schema.json")))
    print("MANIFEST: checks", [c["property_id"] for c in checks], "n/a", [x["property_id"] for x in na])

if __name__ == "__main__":
    main()
