"""Seams: the harness owns the optimiser (pyhf's documented custom-optimiser extension point) and the samplers.

ScriptedOptimizer is installed with the public pyhf.set_backend(backend, optimizer).  With FakePdf the unmodified
test statistics, calculators, hypotest and upper_limit run end to end on harness-chosen fit answers.
"""
from __future__ import annotations

import numpy as np


class AsimovToken:
    """what FakePdf.expected_data returns; identifies the Asimov dataset in the optimiser log."""

    def __init__(self, pars):
        self.pars = pars

    def __repr__(self):
        return f"Asimov({self.pars})"


class FakeConfig:
    def __init__(self, npars=2, poi_index=0, poi_bounds=(0, 10), fixed=None):
        self.npars = npars
        self.poi_index = poi_index
        self.poi_name = "mu" if poi_index is not None else None
        self.par_names = ["mu"] + [f"th{i}" for i in range(npars - 1)]
        self._bounds = [tuple(poi_bounds)] + [(-5.0, 5.0)] * (npars - 1)
        self._fixed = fixed or [False] * npars
        self.par_order = list(self.par_names)

    def suggested_init(self):
        return [1.0] + [0.0] * (self.npars - 1)

    def suggested_bounds(self):
        return list(self._bounds)

    def suggested_fixed(self):
        return list(self._fixed)

    def par_slice(self, name):
        i = self.par_names.index(name)
        return slice(i, i + 1)


class FakePdf:
    """duck-typed model: only what pyhf.infer touches."""

    def __init__(self, **kw):
        self.config = FakeConfig(**kw)
        self.asimov_requests = []

    def expected_data(self, pars, include_auxdata=True):
        import pyhf

        p = [float(x) for x in np.asarray(pyhf.tensorlib.tolist(pars)).ravel()]
        self.asimov_requests.append(p)
        return AsimovToken(p)


class ScriptedOptimizer:
    """answer(kind) -> (best-fit vector as list, objective value);  kind = dict(data='obs'|'asimov'|('toy', i), fixed_poi=value|None,
    bounds=..., init=..., fixed=[(idx, val)...]).  Every request is logged in .calls."""

    name = "scripted"

    def __init__(self, answer, poi_index=0):
        self.answer = answer
        self.poi_index = poi_index
        self.calls = []

    def minimize(self, objective, data, pdf, init_pars, par_bounds, fixed_vals=None, return_fitted_val=False,
                 return_result_obj=False, **kw):
        import pyhf

        tl = pyhf.tensorlib
        fixed = dict(fixed_vals or [])
        if isinstance(data, AsimovToken):
            dk = "asimov"
        elif isinstance(data, tuple) and data and data[0] == "toy":
            dk = data
        else:
            dk = "obs"
        kind = dict(data=dk, fixed_poi=(float(fixed[self.poi_index]) if self.poi_index in fixed else None),
                    bounds=[tuple(float(x) for x in b) for b in par_bounds], init=[float(x) for x in init_pars],
                    fixed=sorted((int(i), float(v)) for i, v in fixed.items()), kwargs=sorted(kw))
        self.calls.append(kind)
        x, val = self.answer(kind)
        xt = tl.astensor(np.asarray(x, dtype=np.float64))
        if return_fitted_val:
            return xt, tl.astensor(np.float64(val))
        return xt


# ----------------------------------------------------------------------------- sampler seams
class _Dist:
    def __init__(self, owner, kind, params, real):
        self.owner, self.kind, self.params, self.real = owner, kind, params, real
        self.index = owner.created
        owner.created += 1

    def log_prob(self, value):
        return self.real.log_prob(value)

    def __getattr__(self, name):
        return getattr(self.real, name)

    def sample(self, sample_shape=()):
        return self.owner._sample(self, tuple(sample_shape))


class SamplerSeam:
    """Replaces the current backend's poisson_dist / normal_dist factories (attribute patch on the backend *class*, inside the harness process only).

    mode 'record:rate|loc|scale': sample(shape) returns the distribution's own parameter broadcast to shape + param.shape, so stitched pseudo-data
    reveal which parameter reached which data slot.
    mode 'enumerate': sample((N,)) returns a deterministic multiset whose empirical law is the exact Poisson law quantised to 1/N; several
    one-component distributions created by one make_pdf are laid out as a product grid (axis sizes in `grid`)."""

    def __init__(self, mode, grid=None):
        self.mode, self.grid = mode, grid
        self.created = 0
        self.log = []

    def __enter__(self):
        import pyhf

        self.cls = type(pyhf.tensorlib)
        self.orig = (self.cls.poisson_dist, self.cls.normal_dist)
        seam = self

        def poisson_dist(self_, rate):
            return _Dist(seam, "poisson", (rate,), seam.orig[0](self_, rate))

        def normal_dist(self_, mu, sigma):
            return _Dist(seam, "normal", (mu, sigma), seam.orig[1](self_, mu, sigma))

        self.cls.poisson_dist, self.cls.normal_dist = poisson_dist, normal_dist
        return self

    def __exit__(self, *a):
        self.cls.poisson_dist, self.cls.normal_dist = self.orig

    def _sample(self, d, shape):
        import pyhf

        tl = pyhf.tensorlib
        p = [np.asarray(tl.tolist(x), dtype=np.float64) for x in d.params]
        self.log.append(dict(kind=d.kind, index=d.index, shape=shape, params=[x.tolist() for x in p]))
        if self.mode.startswith("record"):
            which = self.mode.split(":")[1]
            if d.kind == "poisson":
                src = p[0]
            else:
                src = p[1] if which == "scale" else p[0]
            out = np.broadcast_to(src, shape + src.shape).copy()
            return tl.astensor(out)
        # enumerate: one-component poisson distributions on a product grid
        assert d.kind == "poisson" and p[0].size == 1 and len(shape) == 1, (d.kind, p[0].shape, shape)
        n_tot = shape[0]
        axis = d.index % len(self.grid)
        assert int(np.prod(self.grid)) == n_tot, (self.grid, n_tot)
        vals = enumerate_poisson(float(p[0].ravel()[0]), self.grid[axis])
        rep_inner = int(np.prod(self.grid[axis + 1:]))
        rep_outer = int(np.prod(self.grid[:axis]))
        col = np.tile(np.repeat(vals, rep_inner), rep_outer)
        return tl.astensor(col.reshape((n_tot,) + p[0].shape))


def enumerate_poisson(lam, n):
    """n values whose empirical distribution is Pois(lam) quantised to 1/n (largest-remainder rounding), ascending."""
    from scipy.stats import poisson as sp

    hi = int(lam + 12 * np.sqrt(lam + 1) + 12)
    ks = np.arange(0, hi + 1)
    pm = sp.pmf(ks, lam)
    raw = pm * n
    cnt = np.floor(raw).astype(int)
    rem = n - cnt.sum()
    order = np.argsort(-(raw - cnt), kind="stable")
    cnt[order[:rem]] += 1
    return np.repeat(ks.astype(np.float64), cnt)
