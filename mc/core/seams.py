"""Seams: the harness owns the optimiser (pyhf's documented custom-optimiser extension point) and the samplers.

ScriptedOptimizer is installed with the public pyhf.set_backend(backend, optimizer).  With FakePdf the unmodified
test statistics, calculators, hypotest and upper_limit run end to end on harness-chosen fit answers.
"""
from __future__ import annotations

import numpy as np


class AsimovToken:
    """what FakePdf.expected_data returns; identifies the Asimov dataset in the optimiser log."""

    def __init__(self, pars):
        self.pars = pars

    def __repr__(self):
        return f"Asimov({self.pars})"


class FakeConfig:
    def __init__(self, npars=2, poi_index=0, poi_bounds=(0, 10), fixed=None):
        self.npars = npars
        self.poi_index = poi_index
        self.poi_name = "mu" if poi_index is not None else None
        self.par_names = ["mu"] + [f"th{i}" for i in range(npars - 1)]
        self._bounds = [tuple(poi_bounds)] + [(-5.0, 5.0)] * (npars - 1)
        self._fixed = fixed or [False] * npars
        self.par_order = list(self.par_names)

    def suggested_init(self):
        return [1.0] + [0.0] * (self.npars - 1)

    def suggested_bounds(self):
        return list(self._bounds)

    def suggested_fixed(self):
        return list(self._fixed)

    def par_slice(self, name):
        i = self.par_names.index(name)
        return slice(i, i + 1)


class FakePdf:
    """duck-typed model: only what pyhf.infer touches."""

    def __init__(self, **kw):
        self.config = FakeConfig(**kw)
        self.asimov_requests = []

    def expected_data(self, pars, include_auxdata=True):
        import pyhf

        p = [float(x) for x in np.asarray(pyhf.tensorlib.tolist(pars)).ravel()]
        self.asimov_requests.append(p)
        return AsimovToken(p)


class ScriptedOptimizer:
    """answer(kind) -> (best-fit vector as list, objective value);  kind = dict(data='obs'|'asimov'|('toy', i), fixed_poi=value|None,
    bounds=..., init=..., fixed=[(idx, val)...]).  Every request is logged in .calls."""

    name = "scripted"

    def __init__(self, answer, poi_index=0):
        self.answer = answer
        self.poi_index = poi_index
        self.calls = []

    def minimize(self, objective, data, pdf, init_pars, par_bounds, fixed_vals=None, return_fitted_val=False,
                 return_result_obj=False, **kw):
        import pyhf

        tl = pyhf.tensorlib
        fixed = dict(fixed_vals or [])
        if isinstance(data, AsimovToken):
            dk = "asimov"
        elif isinstance(data, tuple) and data and data[0] == "toy":
            dk = data
        else:
            dk = "obs"
        kind = dict(data=dk, fixed_poi=(float(fixed[self.poi_index]) if self.poi_index in fixed else None),
                    bounds=[tuple(float(x) for x in b) for b in par_bounds], init=[float(x) for x in init_pars],
                    fixed=sorted((int(i), float(v)) for i, v in fixed.items()), kwargs=sorted(kw))
        self.calls.append(kind)
        x, val = self.answer(kind)
        xt = tl.astensor(np.asarray(x, dtype=np.float64))
        if return_fitted_val:
            return xt, tl.astensor(np.float64(val))
        return xt
