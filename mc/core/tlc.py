"""Run TLC on a small reference model and return its complete labelled state graph.

`tlc -dump dot,actionlabels` writes every reachable state and every transition with the action that produced it; the harness
replays *every* transition (BFS-tree path to the source state + the edge) against the implementation."""
from __future__ import annotations

import collections
import os
import re
import shutil
import subprocess
import tempfile

TLA_DIR = os.path.join(os.path.dirname(os.path.dirname(os.path.abspath(__file__))), "tla")
NODE = re.compile(r'^(-?\d+) \[label="((?:[^"\\]|\\.)*)"')
EDGE = re.compile(r'^(-?\d+) -> (-?\d+) \[label="((?:[^"\\]|\\.)*)"')


def run(module, constants, invariant="Inv"):
    """constants: dict name -> TLA+ expression text.  Returns dict(states, edges, init, stats)."""
    tmp = tempfile.mkdtemp(prefix="vtlc_")
    try:
        shutil.copy(os.path.join(TLA_DIR, module + ".tla"), tmp)
        with open(os.path.join(tmp, module + ".cfg"), "w") as f:
            f.write("CONSTANTS\n" + "".join(f"  {k} = {v}\n" for k, v in constants.items()) + "INIT Init\nNEXT Next\n" + (f"INVARIANT {invariant}\n" if invariant else ""))
        r = subprocess.run(["tlc", "-workers", "1", "-noGenerateSpecTE", "-deadlock", "-metadir", os.path.join(tmp, "meta"), "-dump", "dot,actionlabels",
                            os.path.join(tmp, "graph"), module + ".tla"], cwd=tmp, capture_output=True, text=True, timeout=1800)
        out = r.stdout + r.stderr
        if "No error has been found" not in out:
            raise RuntimeError("TLC did not finish cleanly:\n" + out[-2000:])
        m = re.search(r"(\d+) states generated, (\d+) distinct states found", out)
        states, edges, init = {}, [], None
        with open(os.path.join(tmp, "graph.dot")) as f:
            for line in f:
                e = EDGE.match(line)
                if e:
                    edges.append((e.group(1), e.group(2), e.group(3).replace('\\"', '"')))
                    continue
                n = NODE.match(line)
                if n:
                    states[n.group(1)] = n.group(2).replace('\\"', '"').replace("\\n", "\n").replace("\\\\", "\\")
                    if "style = filled" in line and init is None:
                        init = n.group(1)
        return dict(states=states, edges=edges, init=init, generated=int(m.group(1)) if m else None, distinct=int(m.group(2)) if m else None, log=out[-600:])
    finally:
        shutil.rmtree(tmp, ignore_errors=True)


def bfs_paths(graph):
    """shortest action path from the initial state to every state."""
    adj = collections.defaultdict(list)
    for s, d, a in graph["edges"]:
        adj[s].append((d, a))
    paths = {graph["init"]: []}
    q = collections.deque([graph["init"]])
    while q:
        s = q.popleft()
        for d, a in adj[s]:
            if d not in paths:
                paths[d] = paths[s] + [a]
                q.append(d)
    return paths


def parse_action(a):
    """'Export("W1","dA")' -> ('Export', ['W1', 'dA']);  'Delete(1)' -> ('Delete', [1])"""
    m = re.match(r"(\w+)(?:\((.*)\))?$", a.strip())
    name, args = m.group(1), []
    if m.group(2):
        for t in re.findall(r'"[^"]*"|[^,\s]+', m.group(2)):
            args.append(t[1:-1] if t.startswith('"') else (int(t) if re.fullmatch(r"-?\d+", t) else t))
    return name, args
