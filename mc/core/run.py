"""Runner shared by every check: spawn pool, evidence, findings triage, replay.

A check module (mc/checks/Cxx.py) provides

    ID, LEVEL, TECHNIQUE
    plan(tier, seed)  -> dict(cases=iterable of JSON-able case dicts,
                             rule=str, alphabet=dict, bound=dict,
                             assumptions=[...], trusted_base=[...],
                             preload=[module names], chunk=int, workers=int)
    eval_case(case)   -> dict(issues=[{key, what, detail}], nontrivial=bool,
                             outcome=str, comparisons=int, [trans=int], [extra])
    finalize(results, plan) -> dict(extra coverage keys, issues=[...])   (optional)

Every case of the finite plan is executed on the real pyhf (never sampled).
"""
from __future__ import annotations

import fnmatch
import hashlib
import importlib
import json
import multiprocessing as mp
import os
import subprocess
import sys
import time
import traceback

ROOT = os.path.dirname(os.path.dirname(os.path.dirname(os.path.abspath(__file__))))
PY = "/venv/bin/python"
NOISE = ("Warning", "I0000", "WARNING", "E0000", "W0000", "as_tensor", "conda")


def canon(obj) -> str:
    return json.dumps(obj, sort_keys=True, separators=(",", ":"), default=_default)


def _default(o):
    try:
        import numpy as np

        if isinstance(o, np.ndarray):
            return o.tolist()
        if isinstance(o, (np.floating, np.integer, np.bool_)):
            return o.item()
    except Exception:
        pass
    if isinstance(o, (set, frozenset)):
        return sorted(o)
    if isinstance(o, tuple):
        return list(o)
    return repr(o)


def digest(obj) -> str:
    return hashlib.sha1(canon(obj).encode()).hexdigest()[:16]


def set_env():
    os.environ.setdefault("PYTHONHASHSEED", "0")
    for k in ("OMP_NUM_THREADS", "OPENBLAS_NUM_THREADS", "MKL_NUM_THREADS", "NUMEXPR_NUM_THREADS"):
        os.environ[k] = "1"
    os.environ["TF_NUM_INTRAOP_THREADS"] = "1"
    os.environ["TF_NUM_INTEROP_THREADS"] = "1"
    os.environ["TF_ENABLE_ONEDNN_OPTS"] = "0"
    os.environ["TF_CPP_MIN_LOG_LEVEL"] = "3"
    os.environ["CUDA_VISIBLE_DEVICES"] = ""
    os.environ["JAX_PLATFORMS"] = "cpu"
    os.environ["XLA_FLAGS"] = "--xla_cpu_multi_thread_eigen=false intra_op_parallelism_threads=1"
    os.environ["PYHF_VERIF"] = "1"


def _quiet():
    import logging
    import warnings

    logging.disable(logging.CRITICAL)
    warnings.filterwarnings("ignore")


_MOD = None


def _worker_init(check_id, preload, syspath):
    global _MOD
    set_env()
    for p in syspath:
        if p not in sys.path:
            sys.path.insert(0, p)
    _quiet()
    import pyhf  # noqa

    assert os.path.realpath(pyhf.__file__).startswith("/repo/src"), pyhf.__file__
    for m in preload or []:
        importlib.import_module(m)
    try:
        import torch

        torch.set_num_threads(1)
    except Exception:
        pass
    _MOD = importlib.import_module(f"mc.checks.{check_id}")
    if hasattr(_MOD, "worker_init"):
        _MOD.worker_init()


def safe_eval(mod, case):
    try:
        r = mod.eval_case(case)
    except Exception as e:  # an uncaught exception on a well-formed case is itself an observation
        tb = traceback.format_exc(limit=6)
        r = {
            "issues": [
                {
                    "key": f"{mod.ID}:uncaught:{type(e).__name__}",
                    "what": f"uncaught {type(e).__name__}: {str(e)[:200]}",
                    "detail": tb[-1500:],
                }
            ],
            "nontrivial": False,
            "outcome": "exc:" + type(e).__name__,
            "comparisons": 0,
        }
    r.setdefault("issues", [])
    r.setdefault("nontrivial", True)
    r.setdefault("outcome", "")
    r.setdefault("comparisons", 1)
    return r


def _eval_chunk(chunk):
    out = []
    for idx, case in chunk:
        r = safe_eval(_MOD, case)
        r["idx"] = idx
        out.append(r)
    return out


def load_findings():
    p = os.path.join(ROOT, "known_findings.json")
    if not os.path.exists(p):
        return []
    return json.load(open(p))["findings"]


def match_known(key, findings, prop):
    for f in findings:
        if f.get("status") != "known" or f.get("property") != prop:
            continue
        if fnmatch.fnmatchcase(key, f["key"]):
            return f
    return None


def write_replay(prop, case, issue):
    d = os.path.join(ROOT, "replays", prop)
    os.makedirs(d, exist_ok=True)
    h = digest({"case": case, "key": issue["key"]})
    p = os.path.join(d, f"{h}.json")
    with open(p, "w") as f:
        json.dump({"property": prop, "case": case, "issue": issue, "repo_rev": repo_rev()}, f, indent=1, default=_default)
    return os.path.relpath(p, ROOT)


def repo_rev():
    try:
        return subprocess.run(["git", "-C", "/repo", "rev-parse", "HEAD"], capture_output=True, text=True).stdout.strip()
    except Exception:
        return "?"


def replay_in_subprocess(prop, path):
    """Re-run one case in a fresh interpreter; returns the sorted list of issue keys (or None on crash)."""
    r = subprocess.run(
        [PY, os.path.join(ROOT, "vcheck"), prop, "--replay", path, "--keys-only"],
        capture_output=True,
        text=True,
        cwd=ROOT,
        env={**os.environ, "VCHECK_NO_CONFIRM": "1"},
    )
    for line in r.stdout.splitlines():
        if line.startswith("REPLAY-KEYS "):
            return json.loads(line[len("REPLAY-KEYS "):])
    return None


def run_check(check_id, tier, seed, only=None):
    set_env()
    _quiet()
    t0 = time.time()
    mod = importlib.import_module(f"mc.checks.{check_id}")
    plan = mod.plan(tier, seed)
    cases = list(plan["cases"])
    if only is not None:
        cases = cases[:only]
    chunk = plan.get("chunk", 16)
    nworkers = min(plan.get("workers", 16), max(1, (len(cases) + chunk - 1) // chunk))
    indexed = list(enumerate(cases))
    chunks = [indexed[i:i + chunk] for i in range(0, len(indexed), chunk)]
    results = [None] * len(cases)
    if nworkers <= 1 or os.environ.get("VCHECK_INLINE"):
        _worker_init(check_id, plan.get("preload"), [ROOT])
        for ch in chunks:
            for r in _eval_chunk(ch):
                results[r["idx"]] = r
    else:
        ctx = mp.get_context("spawn")
        with ctx.Pool(
            nworkers,
            initializer=_worker_init,
            initargs=(check_id, plan.get("preload"), [ROOT]),
            maxtasksperchild=plan.get("maxtasks"),
        ) as pool:
            for out in pool.imap_unordered(_eval_chunk, chunks):
                for r in out:
                    results[r["idx"]] = r
    missing = [i for i, r in enumerate(results) if r is None]
    if missing:
        print(f"HARNESS-FAULT property={check_id} {len(missing)} cases returned no result")
        return 2
    extra = {}
    fin_issues = []
    if hasattr(mod, "finalize"):
        extra = mod.finalize(results, plan, cases) or {}
        fin_issues = extra.pop("issues", [])

    # ---------------- triage
    findings = load_findings()
    known_hits = {}
    violations = []
    for i, r in enumerate(results):
        for iss in r["issues"]:
            f = match_known(iss["key"], findings, check_id)
            if f is not None:
                known_hits.setdefault(f["key"], [f, 0, iss])
                known_hits[f["key"]][1] += 1
            else:
                violations.append((cases[i], iss))
    for iss in fin_issues:
        f = match_known(iss["key"], findings, check_id)
        if f is not None:
            known_hits.setdefault(f["key"], [f, 0, iss])
            known_hits[f["key"]][1] += 1
        else:
            violations.append((iss.get("case", {"finalize": True}), iss))

    # ---------------- evidence
    nontriv = set()
    outcomes = set()
    comparisons = 0
    trans = 0
    for i, r in enumerate(results):
        comparisons += int(r.get("comparisons", 0))
        trans += int(r.get("trans", 0))
        outcomes.add(r["outcome"])
        if r["nontrivial"]:
            nontriv.add(digest(cases[i]))
    samples = plan.get("samples")
    if samples is None:
        step = max(1, len(cases) // 3)
        samples = [
            {"case": cases[i], "outcome": results[i]["outcome"][:300]} for i in range(0, len(cases), step)
        ][:4]
    cov = {
        "evaluations": len(cases),
        "distinct_nontrivial": len(nontriv),
        "rule": plan["rule"],
        "samples": samples,
        "exhaustive": plan.get("exhaustive", True) and only is None,
        "oracle_comparisons": comparisons,
        "distinct_outcomes": len(outcomes),
        "alphabet": plan.get("alphabet", {}),
        "bound": plan.get("bound", {}),
        "trusted_base": plan.get("trusted_base", []),
        "known_findings_observed": {k: v[1] for k, v in known_hits.items()},
        "repo_rev": repo_rev(),
    }
    cov.update(extra)
    ev = {
        "property_id": check_id,
        "tier": tier,
        "seed": seed,
        "level": mod.LEVEL,
        "coverage": cov,
        "assumptions": plan.get("assumptions", []),
        "wall_s": round(time.time() - t0, 2),
        "violations": len(violations),
    }
    os.makedirs(os.path.join(ROOT, "evidence"), exist_ok=True)
    evp = os.path.join(ROOT, "evidence", f"{check_id}.json")
    with open(evp, "w") as f:
        json.dump(ev, f, indent=1, default=_default)
    validate_evidence(evp)

    for k, (f, n, iss) in sorted(known_hits.items()):
        print(f"KNOWN-FINDING: property={check_id} {f['what']} [key={k} observed={n}]")
    for f in findings:
        if f.get("property") == check_id and f.get("status") == "known" and f["key"] not in known_hits and tier == "thorough":
            print(f"NOTE: listed finding {f['key']} was not observed in this run")

    vacuous = len(outcomes) < 2 and len(cases) > 1 and not violations
    if vacuous:
        print(f"HARNESS-FAULT property={check_id} vacuous: one outcome from {len(cases)} cases")
        return 2
    print(
        f"{check_id} tier={tier} seed={seed} cases={len(cases)} comparisons={comparisons} "
        f"distinct_nontrivial={len(nontriv)} outcomes={len(outcomes)} violations={len(violations)} "
        f"known={sum(v[1] for v in known_hits.values())} wall={ev['wall_s']}s"
    )
    if not violations:
        return 0
    # group by key; write one replay per key (the first = simplest case, plans are ordered simplest-first)
    seen = {}
    for case, iss in violations:
        seen.setdefault(iss["key"], []).append((case, iss))
    rc = 1
    confirm_budget = 3
    for key, lst in seen.items():
        case, iss = lst[0]
        path = write_replay(check_id, case, iss)
        if confirm_budget > 0 and not os.environ.get("VCHECK_NO_CONFIRM") and not case.get("finalize"):
            confirm_budget -= 1
            k1 = replay_in_subprocess(check_id, path)
            k2 = replay_in_subprocess(check_id, path)
            if k1 != k2 or k1 is None or key not in k1:
                print(f"NONREPRODUCIBLE property={check_id} key={key} replay={path} run1={k1} run2={k2}")
                rc = 2
                continue
        print(f"VIOLATION property={check_id} replay={path}  key={key} count={len(lst)} :: {iss['what'][:300]}")
    return rc


def validate_evidence(path):
    try:
        import jsonschema

        schema = json.load(open("/root/.vp/EVIDENCE.schema.json"))
        jsonschema.validate(json.load(open(path)), schema)
    except ImportError:
        pass
    except FileNotFoundError:
        pass


def run_replay(check_id, path, keys_only=False):
    set_env()
    _quiet()
    if not os.path.isabs(path):
        path = os.path.join(ROOT, path)
    doc = json.load(open(path))
    mod = importlib.import_module(f"mc.checks.{check_id}")
    _worker_init(check_id, getattr(mod, "PRELOAD", None), [ROOT])
    r = safe_eval(mod, doc["case"])
    keys = sorted({i["key"] for i in r["issues"]})
    if keys_only:
        print("REPLAY-KEYS " + json.dumps(keys))
        return 0
    findings = load_findings()
    bad = [i for i in r["issues"] if match_known(i["key"], findings, check_id) is None]
    for i in r["issues"]:
        print(("VIOLATION " if i in bad else "KNOWN-FINDING: ") + f"property={check_id} replay={os.path.relpath(path, ROOT)} key={i['key']} :: {i['what']}")
        if i.get("detail"):
            print("   detail:", str(i["detail"])[:1500])
    if not r["issues"]:
        print(f"replay {path}: no issue observed (outcome {r['outcome'][:200]})")
    return 1 if bad else 0
