import sys, time, logging, copy, json, tempfile, shutil, collections, multiprocessing as mp_
from pathlib import Path
sys.path.insert(0,'/tmp/proto')
import specspace, sweep1
def to_ws(spec, cfgm):
    chans=copy.deepcopy(spec['channels'])
    obs=[{'name':c['name'],'data':[float(int(sum(s['data'][b] for s in c['samples'])))+b for b in range(len(c['samples'][0]['data']))]} for c in chans]
    return {'channels':chans,'observations':obs,'measurements':[{'name':'meas','config':{'poi':'mu','parameters':copy.deepcopy(spec['parameters'])}}],'version':'1.0.0'}
def check(args):
    skel,k,sh,nsh=args
    import pyhf, numpy as np
    from pyhf import writexml, readxml
    logging.disable(logging.CRITICAL)
    out=collections.Counter(); ex={}
    root=Path(tempfile.mkdtemp(prefix='pyhfv18_'))
    try:
        for idx,(labels,spec) in enumerate(specspace.specs(skel,k)):
            if len(labels)!=k or idx%nsh!=sh: continue
            ws=to_ws(spec,None)
            d=root/f"x{idx}"; (d/'config').mkdir(parents=True); (d/'data').mkdir()
            kinds=tuple(sorted(set(l.split('@')[0] for l in labels)))
            try:
                xml=writexml.writexml(ws,d/'config',d/'data','FitConfig'); (d/'FitConfig.xml').write_bytes(xml)
                readxml.clear_filecache()
                back=readxml.parse(d/'FitConfig.xml',Path('.'))
            except Exception as e:
                out[('EXC',type(e).__name__,kinds)]+=1; ex.setdefault(('EXC',type(e).__name__,kinds),str(e)[:100]); continue
            m0=pyhf.Workspace(ws).model(); m1=pyhf.Workspace(back).model()
            # name mapping: staterror st_<ch> -> staterror_<ch>
            def mapname(n): return 'staterror_'+n[3:] if n.startswith('st_') else n
            if sorted(mapname(n) for n in m0.config.par_order)!=sorted(m1.config.par_order): out[('PARNAMES',kinds)]+=1; ex.setdefault(('PARNAMES',kinds),(m0.config.par_order,m1.config.par_order)); continue
            ok=True
            for kind in (1,2):
                vals=sweep1.gen_point(m0,kind)
                p0=[0.]*m0.config.npars; p1=[0.]*m1.config.npars
                for n,v in vals.items(): p0[m0.config.par_slice(n)]=v; p1[m1.config.par_slice(mapname(n))]=v
                # data by name
                main={c:[20.+3*i+b for b in range(m0.config.channel_nbins[c])] for i,c in enumerate(m0.config.channels)}
                aux0={}
                off=0
                for n in m0.config.auxdata_order:
                    npar=m0.config.param_set(n).n_parameters; aux0[n]=[a*1.04+0.03*(j+1) for j,a in enumerate(m0.config.auxdata[off:off+npar])]; off+=npar
                d0=sum((main[c] for c in m0.config.channels),[])+sum((aux0[n] for n in m0.config.auxdata_order),[])
                inv={mapname(n):n for n in m0.config.auxdata_order}
                d1=sum((main[c] for c in m1.config.channels),[])+sum((aux0[inv[n]] for n in m1.config.auxdata_order),[])
                l0=m0.logpdf(p0,d0)[0]; l1=m1.logpdf(p1,d1)[0]
                if not abs(l0-l1)<=1e-9*(1+abs(l0)): ok=False; out[('LOGPDF',kinds)]+=1; ex.setdefault(('LOGPDF',kinds),(l0,l1)); break
            if ok:
                w0=pyhf.Workspace(ws); w1=pyhf.Workspace(back)
                if w0.data(m0,include_auxdata=False)!=[float(x) for x in w1.data(m1,include_auxdata=False)] and sorted(m0.config.channels)==sorted(m1.config.channels):
                    out[('OBS',kinds)]+=1
                else: out[('OK',)]+=1
            shutil.rmtree(d)
    finally:
        shutil.rmtree(root,ignore_errors=True)
    return out,ex
if __name__=='__main__':
    tasks=[(s,k,sh,4) for s in specspace.SKEL for k in (0,1,2) for sh in range(4)]
    allc=collections.Counter(); allex={}
    with mp_.get_context('spawn').Pool(16) as pool:
        for out,ex in pool.imap_unordered(check,tasks):
            allc.update(out)
            for k,v in ex.items(): allex.setdefault(k,v)
    for k,v in allc.most_common(40): print(v,k,allex.get(k,''))
