import pyhf, numpy as np, logging, mpmath as mp
logging.disable(logging.CRITICAL)
class FakeConfig:
    poi_index=0; npars=2; poi_name='mu'
    par_names=['mu','th']
    def suggested_init(self): return [1.0,0.0]
    def suggested_bounds(self): return [(0,10),(-5,5)]
    def suggested_fixed(self): return [False,False]
class FakePdf:
    config=FakeConfig()
    def expected_data(self,pars): return "ASIMOV"
class Scripted:
    name='scripted'
    def __init__(self,table): self.table=table; self.calls=[]
    def minimize(self,objective,data,pdf,init_pars,par_bounds,fixed_vals=None,return_fitted_val=False,**kw):
        tl=pyhf.tensorlib
        fixed=dict(fixed_vals or [])
        kind=('asimov' if isinstance(data,str) else 'obs', 'fixed' if 0 in fixed else 'free', fixed.get(0))
        self.calls.append(kind)
        muhat,val=self.table[kind[:2]] if kind[1]=='free' else (fixed[0], self.table[kind[:2]](fixed[0]))
        x=tl.astensor(np.array([muhat,0.0]))
        return (x, tl.astensor(val)) if return_fitted_val else x
# prescribe: obs: free fit muhat=0.4 val=10.0 ; fixed(mu)=10+q ; asimov: free muhat=0, val=5 ; fixed(mu)=5+qA
q,qA=3.0,2.0
for b in ['numpy','pytorch']:
    opt=Scripted({('obs','free'):(0.4,10.0),('obs','fixed'):lambda mu:10.0+(q if mu==1.0 else 0.7),('asimov','free'):(0.0,5.0),('asimov','fixed'):lambda mu:5.0+qA})
    pyhf.set_backend(b,opt)
    r=pyhf.infer.hypotest(1.0,[1.0],FakePdf(),return_tail_probs=True,return_expected_set=True,test_stat='qtilde')
    print(b,float(r[0]),[float(x) for x in r[1]],[float(x) for x in r[2]])
    print(opt.calls)
sq,sqa=mp.sqrt(q),mp.sqrt(qA)
print(float(mp.ncdf(-(q+qA)/(2*sqa))/mp.ncdf(-(q-qA)/(2*sqa))))
