import pyhf, numpy as np, logging
logging.disable(logging.CRITICAL)
class Rec:
    def __init__(self, kind, *params): self.kind=kind; self.params=params
    def sample(self, shape):
        tl=pyhf.tensorlib
        base=self.params[0]
        # encode: poisson -> rate ; normal -> loc + 1000*scale
        val = base if self.kind=='P' else base+1000*self.params[1]
        val=tl.astensor(val)
        return tl.tile(tl.reshape(val,(1,)*len(shape)+tuple(tl.shape(val))), tuple(shape)+(1,)*len(tl.shape(val)))
    def log_prob(self,v): raise RuntimeError
spec = {'channels':[{'name':'c','samples':[
   {'name':'sig','data':[5.,6.],'modifiers':[{'name':'mu','type':'normfactor','data':None}]},
   {'name':'bkg','data':[50.,60.],'modifiers':[{'name':'n','type':'normsys','data':{'lo':0.9,'hi':1.1}},{'name':'st','type':'staterror','data':[3.,4.]},{'name':'ss','type':'shapesys','data':[5.,6.]}]}]}]}
m=pyhf.Model(spec,poi_name='mu')
print(m.config.par_order, m.config.auxdata_order)
for b in ['numpy','jax','pytorch','tensorflow']:
    pyhf.set_backend(b); tl=pyhf.tensorlib; cls=type(tl)
    op,on=cls.poisson_dist,cls.normal_dist
    cls.poisson_dist=lambda self,rate: Rec('P',rate); cls.normal_dist=lambda self,mu,sigma: Rec('N',mu,sigma)
    try:
        pars=tl.astensor(np.array([1.3,0.4,1.1,0.8,0.9,1.2]))
        s=m.make_pdf(pars).sample((2,))
        print(b, tl.shape(s), [round(float(x),4) for x in np.asarray(tl.tolist(s))[0]])
    finally:
        cls.poisson_dist,cls.normal_dist=op,on
print("expected main", list(m.expected_actualdata([1.3,0.4,1.1,0.8,0.9,1.2])))
