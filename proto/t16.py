import pyhf, numpy as np, copy, logging, math
logging.disable(logging.CRITICAL)
base = {'channels':[
 {'name':'zc','samples':[
   {'name':'sig','data':[8.,12.,4.],'modifiers':[{'name':'mu','type':'normfactor','data':None},{'name':'lumi','type':'lumi','data':None},{'name':'h','type':'histosys','data':{'lo_data':[7.,11.,3.5],'hi_data':[9.,13.5,4.4]}}]},
   {'name':'bkg','data':[50.,60.,30.],'modifiers':[{'name':'h','type':'histosys','data':{'lo_data':[45.,58.,28.],'hi_data':[56.,63.,33.]}},{'name':'n','type':'normsys','data':{'lo':0.9,'hi':1.1}},{'name':'st_zc','type':'staterror','data':[3.,4.,2.]},{'name':'ss','type':'shapesys','data':[5.,6.,3.]}]},
   {'name':'alt','data':[10.,5.,7.],'modifiers':[{'name':'n','type':'normsys','data':{'lo':0.9,'hi':1.1}},{'name':'st_zc','type':'staterror','data':[1.,0.7,0.9]},{'name':'sf','type':'shapefactor','data':None}]},
   {'name':'alt2','data':[4.,6.,2.],'modifiers':[{'name':'n','type':'normsys','data':{'lo':0.9,'hi':1.1}},{'name':'st_zc','type':'staterror','data':[0.5,0.6,0.3]},{'name':'sf','type':'shapefactor','data':None}]}]}],
 'parameters':[{'name':'lumi','auxdata':[1.0],'sigmas':[0.02],'bounds':[[0.5,1.5]],'inits':[1.0]}]}
obs={'zc':[75.,90.,45.]}
def split_channel(spec,obs,ch,at):
    s=copy.deepcopy(spec); o=dict(obs); c=next(c for c in s['channels'] if c['name']==ch)
    parts=[]
    for tag,sl in (('_lo',slice(0,at)),('_hi',slice(at,None))):
        c2={'name':ch+tag,'samples':[]}
        for sm in c['samples']:
            mods=[]
            for m in sm['modifiers']:
                m2=copy.deepcopy(m); t=m['type']
                if t=='histosys': m2['data']={'lo_data':m['data']['lo_data'][sl],'hi_data':m['data']['hi_data'][sl]}
                elif t in ('shapesys','staterror'): m2['data']=m['data'][sl]; m2['name']=m['name']+tag
                elif t=='shapefactor': m2['name']=m['name']+tag
                mods.append(m2)
            c2['samples'].append({'name':sm['name'],'data':sm['data'][sl],'modifiers':mods})
        parts.append(c2); o[ch+tag]=obs[ch][sl]
    s['channels']=[x for x in s['channels'] if x['name']!=ch]+parts; del o[ch]
    return s,o
def merge_samples(spec,ch,a,b):
    s=copy.deepcopy(spec); c=next(c for c in s['channels'] if c['name']==ch)
    sa=next(x for x in c['samples'] if x['name']==a); sb=next(x for x in c['samples'] if x['name']==b)
    assert [(m['name'],m['type']) for m in sa['modifiers']]==[(m['name'],m['type']) for m in sb['modifiers']]
    mods=[]
    for ma,mb in zip(sa['modifiers'],sb['modifiers']):
        m=copy.deepcopy(ma)
        if m['type']=='staterror': m['data']=[math.hypot(x,y) for x,y in zip(ma['data'],mb['data'])]
        elif m['type']=='histosys': m['data']={k:[x+y for x,y in zip(ma['data'][k],mb['data'][k])] for k in ('lo_data','hi_data')}
        else: assert ma['data']==mb['data']
        mods.append(m)
    new={'name':a+'+'+b,'data':[x+y for x,y in zip(sa['data'],sb['data'])],'modifiers':mods}
    c['samples']=[x for x in c['samples'] if x['name'] not in (a,b)]+[new]
    return s
def add_zero_sample(spec,ch):
    s=copy.deepcopy(spec); c=next(c for c in s['channels'] if c['name']==ch); nb=len(c['samples'][0]['data'])
    c['samples'].append({'name':'zero','data':[0.]*nb,'modifiers':[{'name':'n','type':'normsys','data':{'lo':0.8,'hi':1.2}}]}); return s
def add_null_sys(spec,ch,sample):
    s=copy.deepcopy(spec); c=next(c for c in s['channels'] if c['name']==ch); sm=next(x for x in c['samples'] if x['name']==sample)
    sm['modifiers'].append({'name':'nullh','type':'histosys','data':{'lo_data':list(sm['data']),'hi_data':list(sm['data'])}})
    sm['modifiers'].append({'name':'nulln','type':'normsys','data':{'lo':1.0,'hi':1.0}}); return s
def scale_signal(spec,k):
    s=copy.deepcopy(spec)
    for c in s['channels']:
        for sm in c['samples']:
            if sm['name']=='sig':
                sm['data']=[x*k for x in sm['data']]
                for m in sm['modifiers']:
                    if m['type']=='histosys': m['data']={kk:[x*k for x in v] for kk,v in m['data'].items()}
    return s
def rename(spec,obs):
    s=json.loads(json.dumps(spec).replace('"zc','"Azz').replace('"bkg"','"zbkg"').replace('"n"','"zn"').replace('"h"','"ah"')); 
    o={k.replace('zc','Azz'):v for k,v in obs.items()}; return s,o
import json
def infer(spec,obs,mu=1.0,nconst=0):
    m=pyhf.Model(spec,poi_name='mu'); d=[]
    for c in m.config.channels: d+=obs[c]
    d+=m.config.auxdata
    r=pyhf.infer.hypotest(mu,d,m,return_expected_set=True)
    f=pyhf.infer.mle.fit(d,m,return_fitted_val=True)
    return float(r[0]),[float(x) for x in r[1]],float(f[1])+nconst*math.log(2*math.pi)
pyhf.set_backend('numpy',pyhf.optimize.scipy_optimizer(tolerance=1e-10))
ref=infer(base,obs)
def cmp(label,res):
    print(f"{label:28s} dCLs={abs(res[0]-ref[0]):.2e} dExp={max(abs(a-b) for a,b in zip(res[1],ref[1])):.2e} d2nll={abs(res[2]-ref[2]):.2e}")
s1,o1=split_channel(base,obs,'zc',1); cmp('split at 1',infer(s1,o1))
s2,o2=split_channel(base,obs,'zc',2); cmp('split at 2',infer(s2,o2))
cmp('merge alt+alt2',infer(merge_samples(base,'zc','alt','alt2'),obs))
cmp('zero sample',infer(add_zero_sample(base,'zc'),obs))
cmp('null systematics',infer(add_null_sys(base,'zc','bkg'),obs,nconst=-2))
s3,o3=rename(base,obs); cmp('rename',infer(s3,o3))
r=infer(scale_signal(base,2.0),obs,mu=0.5); cmp('scale k=2 at mu/2',r)
s4,o4=split_channel(merge_samples(base,'zc','alt','alt2'),obs,'zc',2); cmp('merge∘split',infer(s4,o4))
print(ref)
obs2={'zc':[60.,70.,35.]}
ref=infer(base,obs2); print(ref)
s1,o1=split_channel(base,obs2,'zc',1); cmp('split at 1',infer(s1,o1))
cmp('merge alt+alt2',infer(merge_samples(base,'zc','alt','alt2'),obs2))
cmp('null systematics',infer(add_null_sys(base,'zc','bkg'),obs2,nconst=-2))
s3,o3=rename(base,obs2); cmp('rename',infer(s3,o3))
r=infer(scale_signal(base,2.0),obs2,mu=0.5); cmp('scale k=2 at mu/2',r)
