import sys, time, logging, itertools, multiprocessing as mp_
sys.path.insert(0,'/tmp/proto')
import specspace, sweep1
def check(args):
    skel,k,sh,nsh=args
    import pyhf, refhf
    logging.disable(logging.CRITICAL)
    bad=[]; n=0; t0=time.time()
    for idx,(labels,spec) in enumerate(specspace.specs(skel,k)):
        if len(labels)!=k or idx%nsh!=sh: continue
        n+=1
        try: m=pyhf.Model(spec,poi_name='mu')
        except Exception as e: bad.append((labels,'BUILD',type(e).__name__,str(e)[:80])); continue
        cfg=m.config
        lumicfg=next((p for p in spec['parameters'] if p['name']=='lumi'),None)
        vals=sweep1.gen_point(m,2)
        pv=[0.]*cfg.npars
        for name,v in vals.items(): pv[cfg.par_slice(name)]=v
        ex=refhf.expected(spec,vals); got=m.expected_actualdata(pv)
        for ch in cfg.channels:
            for a,b in zip([float(x) for x in ex[ch]], list(got[cfg.channel_slices[ch]])):
                if abs(a-b)>1e-11*(1+abs(a)): bad.append((labels,'RATE',ch,a,b)); break
    return skel,k,sh,n,time.time()-t0,bad
if __name__=='__main__':
    tasks=[(s,3,sh,8) for s in specspace.SKEL for sh in range(8)]
    tot=0; nb=0
    with mp_.get_context('spawn').Pool(16) as pool:
        for skel,k,sh,n,dt,bad in pool.imap_unordered(check,tasks):
            tot+=n; nb+=len(bad)
            for b in bad[:3]: print("   ",b)
    print("k=3 total specs",tot,"bad",nb)
