import sys; sys.path.insert(0,'/tmp/proto')
import pyhf, numpy as np, mpmath as mp, refhf, logging
logging.disable(logging.CRITICAL)
from pyhf import interpolators
A=[0.0,-0.0,5e-324,-5e-324,1e-12,-1e-12,.25,-.25,.5,-.5,.75,-.75,np.nextafter(1,0),1.0,np.nextafter(1,2),np.nextafter(-1,0),-1.0,np.nextafter(-1,-2),1.5,-1.5,2,-2,5,-5,30,-30]
trip_add=[(8.,10.,13.),(13.,10.,8.),(10.,10.,10.),(9.,10.,11.),(0.5,10.,40.)]
trip_mul=[(0.9,1.,1.1),(0.8,1.,1.3),(1.2,1.,0.7),(1.,1.,1.),(0.5,1.,2.5),(4.5,5.,6.)]
def run(code, trips, ref):
    hs=[[[ [t[0] for t in trips],[t[1] for t in trips],[t[2] for t in trips] ]]]
    worst=0; where=None
    for fast in (True,False):
        it=interpolators.get(code,do_tensorized_calc=fast)(hs)
        out=np.asarray(it(pyhf.tensorlib.astensor([A])))  # shape (1,1,nalpha,nbins)
        for ai,a in enumerate(A):
            for bi,t in enumerate(trips):
                r=ref(a,t); g=out[0,0,ai,bi]
                scale=abs(float(r))+abs(a)*(abs(t[0])+abs(t[1])+abs(t[2]))+1e-300
                err=abs(g-float(r))/scale
                if err>worst: worst=err; where=(fast,a,t,g,float(r))
    print(code,"worst scaled err",worst,where)
run(0,trip_add,lambda a,t: refhf.interp_add('code0',a,*t))
run(2,trip_add,lambda a,t: refhf.interp_add('code2',a,*t))
run('4p',trip_add,lambda a,t: refhf.interp_add('code4p',a,*t))
run(1,trip_mul,lambda a,t: refhf.interp_mul('code1',a,t[0]/t[1],t[2]/t[1]))
run(4,trip_mul,lambda a,t: refhf.interp_mul('code4',a,t[0]/t[1],t[2]/t[1]))
