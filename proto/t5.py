import sys; sys.path.insert(0,'/tmp/proto')
import refhf, pyhf, logging, mpmath as mp, numpy as np, time
from pyhf.optimize.common import shim
from pyhf.infer.mle import twice_nll
logging.disable(logging.CRITICAL)
spec = {'channels':[
 {'name':'zc','samples':[
   {'name':'sig','data':[5.,6.],'modifiers':[{'name':'mu','type':'normfactor','data':None},{'name':'lumi','type':'lumi','data':None},{'name':'st','type':'staterror','data':[1.,0.5]}]},
   {'name':'bkg','data':[50.,60.],'modifiers':[{'name':'h','type':'histosys','data':{'lo_data':[45.,58.],'hi_data':[56.,63.]}},{'name':'n','type':'normsys','data':{'lo':0.9,'hi':1.1}},{'name':'st','type':'staterror','data':[3.,4.]},{'name':'ss','type':'shapesys','data':[5.,6.]}]}]},
 {'name':'ab','samples':[
   {'name':'bkg','data':[30.,20.,10.],'modifiers':[{'name':'n','type':'normsys','data':{'lo':0.95,'hi':1.07}},{'name':'sf','type':'shapefactor','data':None},{'name':'h','type':'normsys','data':{'lo':0.8,'hi':1.3}}]}]}],
 'parameters':[{'name':'lumi','auxdata':[1.1],'sigmas':[0.02],'bounds':[[0.5,1.5]],'inits':[1.1]}]}
m=pyhf.Model(spec,poi_name='mu')
names=m.config.par_order
aux={'lumi':[1.13],'st':[1.05,0.97],'h':[0.3],'n':[-0.2],'ss':[90.,110.]}
main={'zc':[52.,70.],'ab':[33.,18.5,0.]}
av=[]; 
for n in m.config.auxdata_order: av+=aux[n]
dv=[]
for ch in m.config.channels: dv+=main[ch]
data=np.array(dv+av)
def vec(vals):
    pv=[0.]*m.config.npars
    for k,v in vals.items(): pv[m.config.par_slice(k)]=v
    return pv
def ref2nll(pv):
    vals={k:list(pv[m.config.par_slice(k)]) for k in names}
    return -2*refhf.logpdf(spec,vals,main,aux,lumicfg={'sigmas':[0.02]})
for hval in [-1.7, -1.0, 1.0, 0.0, 0.4]:
    vals={'mu':[1.3],'lumi':[1.07],'st':[0.9,1.2],'h':[hval],'n':[1.0 if hval==1.0 else 0.6],'ss':[1.1,0.8],'sf':[0.7,1.4,2.2]}
    pv=vec(vals)
    t=time.time()
    gref=[]
    for i in range(len(pv)):
        f=lambda x,i=i: ref2nll([mp.mpf(p) if j!=i else x for j,p in enumerate(pv)])
        try: gref.append(float(mp.diff(f, mp.mpf(pv[i]))))
        except Exception as e: gref.append(float('nan'))
    tref=time.time()-t
    for b in ['jax','pytorch','tensorflow']:
        pyhf.set_backend(b); tl=pyhf.tensorlib
        kw,_=shim(twice_nll, tl.astensor(data), m, pv, m.config.suggested_bounds(), fixed_vals=[], do_grad=True, do_stitch=False)
        v,g=kw['func'](tl.astensor(np.array(pv)))
        g=np.asarray(tl.tolist(g)); 
        print(hval,b,"val err",float(v)-float(ref2nll(pv)),"max grad err",np.nanmax(np.abs(g-np.array(gref))), "tref",round(tref,2))
