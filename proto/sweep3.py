import sys, time, logging, multiprocessing as mp_
sys.path.insert(0,'/tmp/proto')
import specspace, sweep1
def check(args):
    skel,k,sh,nsh=args
    import pyhf, numpy as np
    logging.disable(logging.CRITICAL)
    bad=[]; n=0
    for idx,(labels,spec) in enumerate(specspace.specs(skel,k)):
        if len(labels)!=k or idx%nsh!=sh: continue
        n+=1
        m=pyhf.Model(spec,poi_name='mu'); cfg=m.config
        rows=[]
        for kind in (1,2,1):
            vals=sweep1.gen_point(m,kind); pv=[0.]*cfg.npars
            for name,v in vals.items(): pv[cfg.par_slice(name)]=v
            rows.append(pv)
        rows[2]=[x*1.07+0.01 for x in rows[2]]
        for B in (1,2,3):
            mb=pyhf.Model(spec,poi_name='mu',batch_size=B)
            P=np.array(rows[:B])
            D=np.array([[20.+i+3*r for i in range(cfg.nmaindata)]+[a*(1.02+0.01*r)+0.05 for a in cfg.auxdata] for r in range(B)])
            try:
                eb=mb.expected_data(P); lb=mb.logpdf(P,D)
            except Exception as e:
                bad.append((labels,B,'EXC',type(e).__name__,str(e)[:80])); continue
            if eb.shape!=(B,cfg.nmaindata+cfg.nauxdata) or lb.shape!=(B,): bad.append((labels,B,'SHAPE',eb.shape,lb.shape)); continue
            for r in range(B):
                e1=m.expected_data(P[r]); l1=m.logpdf(P[r],D[r])[0]
                if not np.allclose(eb[r],e1,rtol=1e-13,atol=0): bad.append((labels,B,r,'EXP')); break
                if not abs(lb[r]-l1)<=1e-12*(1+abs(l1)): bad.append((labels,B,r,'LOGPDF',lb[r],l1)); break
            try:
                s=mb.make_pdf(P).sample((4,))
                if s.shape!=(4,B,cfg.nmaindata+cfg.nauxdata): bad.append((labels,B,'SAMPLESHAPE',s.shape))
            except Exception as e: bad.append((labels,B,'SAMPLE-EXC',type(e).__name__,str(e)[:80]))
    return n,bad
if __name__=='__main__':
    tasks=[(s,k,sh,4) for s in specspace.SKEL for k in (0,1,2) for sh in range(4)]
    tot=0; allbad=[]
    with mp_.get_context('spawn').Pool(16) as pool:
        for n,bad in pool.imap_unordered(check,tasks): tot+=n; allbad+=bad
    print("specs",tot,"bad",len(allbad))
    seen=set()
    for b in allbad:
        key=(b[1:3] if isinstance(b[2],str) else b[3], tuple(sorted(l.split('@')[0] for l in b[0])))
        if key in seen: continue
        seen.add(key); print("  ",b)
        if len(seen)>15: break
