"""Prototype: skeletons + deviation menu -> specs."""
import itertools, copy, json
def nominal(ci, si, nb):
    return [round(10 + 7*ci + 3*si + 1.5*b + 0.013*(ci+2*si+3*b+1), 4) for b in range(nb)]
SKEL = {
 'B1': [('c0',2,['sig','bkg'])],
 'B2': [('zc',2,['sig','bkg']),('ab',3,['bkg'])],
 'B3': [('m',1,['sig','bkg','alt']),('zc',3,['bkg','sig']),('ab',2,['alt'])],
 'B4': [('zc',2,['sig','bkg']),('ab',2,['sig','bkg'])],
}
SIDX={'sig':0,'bkg':1,'alt':2}
def skeleton(name):
    chans=[]
    for ci,(cn,nb,samples) in enumerate(SKEL[name]):
        ss=[]
        for sn in samples:
            mods=[{'name':'mu','type':'normfactor','data':None}] if sn=='sig' else []
            ss.append({'name':sn,'data':nominal(ci,SIDX[sn],nb),'modifiers':mods})
        chans.append({'name':cn,'samples':ss})
    return {'channels':chans,'parameters':[]}
def cells(spec):
    for ci,c in enumerate(spec['channels']):
        for si,s in enumerate(c['samples']):
            yield ci,si,c,s
def menu(spec, skel):
    """list of (label, fn(spec)) deviations"""
    out=[]
    for ci,si,c,s in cells(spec):
        nb=len(s['data']); cell=f"{c['name']}/{s['name']}"
        def add(label, mod, params=None, ci=ci, si=si):
            def fn(sp, mod=mod, params=params):
                sp['channels'][ci]['samples'][si]['modifiers'].append(copy.deepcopy(mod))
                for p in (params or []):
                    if not any(q['name']==p['name'] for q in sp['parameters']): sp['parameters'].append(copy.deepcopy(p))
            out.append((f"{label}@{cell}", fn))
        nom=s['data']
        add('normfactor:k1', {'name':'k1','type':'normfactor','data':None})
        add('lumi', {'name':'lumi','type':'lumi','data':None}, [{'name':'lumi','auxdata':[1.3],'sigmas':[0.1],'bounds':[[0.0,10.0]],'inits':[1.3]}])
        lohi=[(0.9,1.1),(0.8,1.25),(1.1,0.95)][(ci+si)%3]
        add('normsys:n1', {'name':'n1','type':'normsys','data':{'lo':lohi[0],'hi':lohi[1]}})
        add('normsys:n2', {'name':'n2','type':'normsys','data':{'lo':lohi[1]-0.3,'hi':lohi[0]+0.25}})
        add('histosys:h1', {'name':'h1','type':'histosys','data':{'lo_data':[x*(0.9-0.02*b) for b,x in enumerate(nom)],'hi_data':[x*(1.15+0.03*b) for b,x in enumerate(nom)]}})
        add('normsys:sys', {'name':'sys','type':'normsys','data':{'lo':0.93,'hi':1.08}})
        add('histosys:sys', {'name':'sys','type':'histosys','data':{'lo_data':[x-1-0.5*b for b,x in enumerate(nom)],'hi_data':[x+2+0.25*b for b,x in enumerate(nom)]}})
        add('shapesys', {'name':f"ss_{c['name']}_{s['name']}",'type':'shapesys','data':[0.1*x+0.3*b for b,x in enumerate(nom)]})
        add('shapesys0', {'name':f"ss_{c['name']}_{s['name']}",'type':'shapesys','data':[0.0 if b==0 else 0.2*x for b,x in enumerate(nom)]})
        add('staterror', {'name':f"st_{c['name']}",'type':'staterror','data':[0.05*x+0.2*b+0.1*si for b,x in enumerate(nom)]})
        add('shapefactor', {'name':f"sf_{c['name']}",'type':'shapefactor','data':None})
        if skel=='B4': add('shapefactor:X', {'name':'sfX','type':'shapefactor','data':None})
    return out
def specs(skel, k):
    base=skeleton(skel); m=menu(base, skel)
    for r in range(k+1):
        for combo in itertools.combinations(range(len(m)), r):
            labels=[m[i][0] for i in combo]
            # skip combos attaching the same (type,name) twice to one cell or shapesys+shapesys0 in one cell
            sp=copy.deepcopy(base)
            for i in combo: m[i][1](sp)
            ok=True
            for _,_,c,s in cells(sp):
                keys=[(x['type'],x['name']) for x in s['modifiers']]
                if len(keys)!=len(set(keys)): ok=False
            if ok: yield labels, sp
if __name__=='__main__':
    for sk in SKEL:
        for k in (1,2,3):
            n=sum(1 for _ in specs(sk,k)); print(sk,k,n)
