CONSTANTS
  Cfgs = {"np64","np32","jax64","pt64","pt32","tf64"}
  MaxObjs = 2
  MaxSwitches = 3
INIT Init
NEXT Next
INVARIANT Inv
