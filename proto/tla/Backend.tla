---- MODULE Backend ----
EXTENDS Naturals, Sequences, FiniteSets
CONSTANTS Cfgs, MaxObjs, MaxSwitches
VARIABLES cur, objs, nsw
\* objs: sequence of records [alive |-> BOOLEAN, derived |-> cfg]
vars == <<cur, objs, nsw>>
Init == cur = "np64" /\ objs = <<>> /\ nsw = 0
Switch(c) == /\ nsw < MaxSwitches /\ c # cur
             /\ cur' = c /\ nsw' = nsw + 1
             /\ objs' = [i \in 1..Len(objs) |-> IF objs[i].alive THEN [objs[i] EXCEPT !.derived = c] ELSE objs[i]]
Create == /\ Len(objs) < MaxObjs
          /\ objs' = Append(objs, [alive |-> TRUE, derived |-> cur]) /\ UNCHANGED <<cur, nsw>>
Delete(i) == /\ i \in 1..Len(objs) /\ objs[i].alive
             /\ objs' = [objs EXCEPT ![i].alive = FALSE] /\ UNCHANGED <<cur, nsw>>
Next == (\E c \in Cfgs : Switch(c)) \/ Create \/ (\E i \in 1..MaxObjs : Delete(i))
Inv == \A i \in 1..Len(objs) : objs[i].alive => objs[i].derived = cur
Spec == Init /\ [][Next]_vars
====
