import pyhf, copy, json, logging, itertools
logging.disable(logging.CRITICAL)
def W(ch, nom, meas='m', poi='mu', extra_par=None, obs=None, shared='n1', lumi=False):
    mods_s=[{'name':poi,'type':'normfactor','data':None}]
    mods_b=[{'name':shared,'type':'normsys','data':{'lo':0.9,'hi':1.1}},{'name':f'st_{ch}','type':'staterror','data':[0.1*x for x in nom]}]
    pars=[] if extra_par is None else [extra_par]
    return {'channels':[{'name':ch,'samples':[{'name':'sig','data':[x*0.1 for x in nom],'modifiers':mods_s},{'name':'bkg','data':nom,'modifiers':mods_b}]}],
            'observations':[{'name':ch,'data':obs or [x+1 for x in nom]}],
            'measurements':[{'name':meas,'config':{'poi':poi,'parameters':pars}}],'version':'1.0.0'}
ws={'A':W('a',[10.,20.]), 'B':W('b',[30.,40.,50.]), 'B2':W('b',[31.,40.,50.]), 'Bsame':W('b',[30.,40.,50.]),
    'Bm2':W('b',[30.,40.,50.],meas='m2'), 'Bpoi':W('b',[30.,40.,50.],poi='mu2'), 'Bpar':W('b',[30.,40.,50.],extra_par={'name':'mu','bounds':[[0,5]],'inits':[1.0]}),
    'Apar':W('a',[10.,20.],extra_par={'name':'mu','bounds':[[0,7]],'inits':[1.0]})}
for (l,r) in [('A','B'),('A','Bm2'),('A','Bpoi'),('A','Bpar'),('Apar','Bpar'),('B','B2'),('B','Bsame'),('A','A')]:
    for join in pyhf.Workspace.valid_joins:
        for merge in ([False,True] if join!='none' else [False]):
            L,R=pyhf.Workspace(ws[l]),pyhf.Workspace(ws[r])
            try:
                c=pyhf.Workspace.combine(L,R,join=join,merge_channels=merge)
                desc=f"ch={[x['name'] for x in c['channels']]} obs={[x['name'] for x in c['observations']]} meas={[(m['name'],m['config']['poi'],[p['name'] for p in m['config']['parameters']]) for m in c['measurements']]}"
            except Exception as e:
                desc=f"REFUSED {type(e).__name__}: {str(e)[:70]}"
            print(f"{l:5s}{r:6s}{join:12s}{str(merge):6s}{desc}")
