import pyhf, numpy as np, logging, mpmath as mp
logging.disable(logging.CRITICAL)
from pyhf.infer.intervals import upper_limits
class FakeConfig:
    poi_index=0; npars=1; poi_name='mu'; par_names=['mu']
    def suggested_init(self): return [1.0]
    def suggested_bounds(self): return [(0,10)]
    def suggested_fixed(self): return [False]
    def par_slice(self,name): return slice(0,1)
class FakePdf:
    config=FakeConfig()
    def expected_data(self,pars): return "ASIMOV"
class Scripted:
    name='scripted'
    def __init__(self,muhat,sigma): self.muhat=muhat; self.sigma=sigma; self.n=0
    def minimize(self,objective,data,pdf,init_pars,par_bounds,fixed_vals=None,return_fitted_val=False,**kw):
        tl=pyhf.tensorlib; self.n+=1
        fixed=dict(fixed_vals or [])
        mh = 0.0 if isinstance(data,str) else self.muhat
        mh_c=max(mh,par_bounds[0][0])
        nll=lambda mu: ((mu-mh)/self.sigma)**2
        if 0 in fixed: x,val=fixed[0],nll(fixed[0])
        else: x,val=mh_c,nll(mh_c)
        x=tl.astensor(np.array([x]))
        return (x, tl.astensor(val)) if return_fitted_val else x
def analytic(muhat,sigma,level,N=None):
    # qtilde with muhat>=0: q=((mu-muhat)/s)^2 for mu>=muhat ; qA=(mu/s)^2 ; q<=qA iff mu-muhat<=mu true -> CLs = Phi(-(mu-muhat)/s)/Phi(muhat/s)
    if N is None:
        f=lambda mu: mp.ncdf(-(mu-muhat)/sigma)/mp.ncdf(muhat/sigma)-level
    else:
        f=lambda mu: mp.ncdf(-N-mu/sigma)/mp.ncdf(-N)-level
    return float(mp.findroot(f,(0.0,20.0),solver='bisect',tol=1e-20))
for muhat,sigma in [(0.0,1.0),(0.5,1.0),(2.0,0.8),(0.3,0.3)]:
    for level in [0.01,0.05,0.2,0.32]:
        opt=Scripted(muhat,sigma); pyhf.set_backend('numpy',opt)
        o,e=upper_limits.upper_limit([1.0],FakePdf(),level=level)
        o2,e2=upper_limits.upper_limit([1.0],FakePdf(),scan=np.linspace(0,10,201),level=level)
        ra=analytic(muhat,sigma,level); re=[analytic(muhat,sigma,level,N) for N in (2,1,0,-1,-2)]
        print(f"muhat={muhat} s={sigma} level={level}: auto obs {float(o):.6f} grid obs {float(o2):.6f} analytic {ra:.6f} | exp auto {[round(float(x),4) for x in e]} analytic {[round(x,4) for x in re]} fits={opt.n}")
