import time, json, tempfile, os, logging
from pathlib import Path
import pyhf
from pyhf import writexml, readxml
from click.testing import CliRunner
from pyhf.cli.cli import pyhf as pcli_main
logging.disable(logging.CRITICAL)
ws={'channels':[{'name':'ch','samples':[
        {'name':'sig','data':[5.,6.],'modifiers':[{'name':'mu','type':'normfactor','data':None}]},
        {'name':'bkg','data':[50.,60.],'modifiers':[{'name':'n','type':'normsys','data':{'lo':0.9,'hi':1.1}},{'name':'ss','type':'shapesys','data':[5.,6.]}]}]}],
     'observations':[{'name':'ch','data':[55.,66.]}],
     'measurements':[{'name':'meas','config':{'poi':'mu','parameters':[]}},{'name':'m2','config':{'poi':'mu','parameters':[{'name':'mu','bounds':[[0,5]],'inits':[2.0]}]}}],
     'version':'1.0.0'}
d=Path(tempfile.mkdtemp(prefix='pyhfv_'))
(d/'w.json').write_text(json.dumps(ws))
r=CliRunner()
for args in (['inspect',str(d/'w.json')],['cls',str(d/'w.json')],['cls',str(d/'w.json'),'--measurement','m2','--test-poi','2.0','--optimizer','minuit'],['fit',str(d/'w.json'),'--value'],['sort',str(d/'w.json')],['digest',str(d/'w.json')],['prune',str(d/'w.json'),'-m','n']):
    t=time.time(); res=r.invoke(pcli_main,args); print(args[0],res.exit_code,round(time.time()-t,3),res.output[:80].replace('\n',' '))
t=time.time()
for i in range(10):
    dd=d/f'x{i}'; (dd/'config').mkdir(parents=True); (dd/'data').mkdir()
    xml=writexml.writexml(ws,dd/'config',dd/'data','FitConfig'); (dd/'FitConfig.xml').write_bytes(xml)
    back=readxml.parse(dd/'FitConfig.xml',Path('.'))
print("roundtrip ms",(time.time()-t)/10*1000)
import subprocess,sys
t=time.time(); out=subprocess.run([sys.executable,'-m','pyhf.cli','digest',str(d/'w.json')],capture_output=True,text=True); print("subprocess",round(time.time()-t,2),out.stdout.strip()[:80],out.returncode)
import shutil; shutil.rmtree(d)
