import sys, time, logging, math, itertools, multiprocessing as mp_
sys.path.insert(0,'/tmp/proto')
import specspace, refhf, mpmath as mp
logging.disable(logging.CRITICAL)
def gen_point(model, kind):
    import pyhf
    cfg=model.config; vals={}
    for i,name in enumerate(cfg.par_order):
        ps=cfg.param_set(name); n=ps.n_parameters
        if ps.constrained and ps.pdf_type=='normal' and getattr(ps,'sigmas',None) is None and name!='lumi' :
            base = (0.37 if kind==1 else -1.6) * (1 if i%2==0 else -1)
            vals[name]=[base+0.11*i]
        elif name=='lumi': vals[name]=[1.21 if kind==1 else 1.42]
        else:
            vals[name]=[ (0.7+0.13*i+0.21*j) if kind==1 else (1.9-0.17*i+0.09*j) for j in range(n)]
    return vals
def check(args):
    skel,k=args
    import pyhf, numpy as np
    bad=[]; n=0; t0=time.time(); rej=0
    for labels,spec in specspace.specs(skel,k):
        if len(labels)!=k: continue
        n+=1
        try:
            m=pyhf.Model(spec,poi_name='mu')
        except Exception as e:
            rej+=1; bad.append((labels,'BUILD',type(e).__name__,str(e)[:80])); continue
        cfg=m.config
        lumicfg=next((p for p in spec['parameters'] if p['name']=='lumi'),None)
        for kind in (1,2):
            vals=gen_point(m,kind)
            pv=[0.]*cfg.npars
            for name,v in vals.items(): pv[cfg.par_slice(name)]=v
            ex=refhf.expected(spec,vals)
            got=m.expected_actualdata(pv)
            for ch in cfg.channels:
                r=[float(x) for x in ex[ch]]; g=list(got[cfg.channel_slices[ch]])
                for a,b in zip(r,g):
                    if abs(a-b)>1e-11*(1+abs(a)): bad.append((labels,'RATE',kind,ch,a,b)); break
            # logpdf
            main={}; dv=[]
            for ci,ch in enumerate(cfg.channels):
                nb=cfg.channel_nbins[ch]; main[ch]=[float(int(20+3*ci+2*b)) if kind==1 else 17.5+1.25*b for b in range(nb)]; dv+=main[ch]
            aux={}; av=[]
            off=0
            for name in cfg.auxdata_order:
                ps=cfg.param_set(name); nom=cfg.auxdata[off:off+ps.n_parameters]; off+=ps.n_parameters
                aux[name]=[float(x)*(1.05+0.01*j)+0.07*(j+1) for j,x in enumerate(nom)]; av+=aux[name]
            try:
                ref=float(refhf.logpdf(spec,vals,main,aux,lumicfg=lumicfg))
                got=float(m.logpdf(pv,dv+av)[0])
                if not (abs(ref-got)<=1e-10*(1+abs(ref))): bad.append((labels,'LOGPDF',kind,ref,got))
            except Exception as e:
                bad.append((labels,'LOGPDF-EXC',type(e).__name__,str(e)[:80]))
    return skel,k,n,rej,time.time()-t0,bad
if __name__=='__main__':
    tasks=[(s,k) for s in specspace.SKEL for k in (0,1,2)]
    with mp_.get_context('spawn').Pool(12) as pool:
        for skel,k,n,rej,dt,bad in pool.imap_unordered(check,tasks):
            print(skel,k,"specs",n,"rejected",rej,"time",round(dt,1),"bad",len(bad))
            seen=set()
            for b in bad:
                key=(b[1],tuple(sorted(l.split('@')[0] for l in b[0])))
                if key in seen: continue
                seen.add(key); print("   ",b)
                if len(seen)>12: break
