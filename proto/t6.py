import pyhf, traceback, logging
logging.disable(logging.CRITICAL)
model = pyhf.simplemodels.uncorrelated_background([12.0,11.0],[50.0,52.0],[3.0,7.0])
data = [51,48]+model.config.auxdata
pyhf.set_backend("pytorch")
try:
    pyhf.infer.mle.fit(pyhf.tensorlib.astensor(data), model, do_grad=False)
except Exception:
    traceback.print_exc(limit=-6)
