import sys, time, logging, copy, itertools, json, multiprocessing as mp_
sys.path.insert(0,'/tmp/proto')
import specspace, sweep1
def perms(spec):
    """single-list permutations: channels; samples of each channel; modifiers of each sample; parameters"""
    n=len(spec['channels'])
    for p in itertools.permutations(range(n)):
        if list(p)==list(range(n)): continue
        s=copy.deepcopy(spec); s['channels']=[s['channels'][i] for i in p]; yield ('channels',p),s
    for ci,c in enumerate(spec['channels']):
        m=len(c['samples'])
        for p in itertools.permutations(range(m)):
            if list(p)==list(range(m)): continue
            s=copy.deepcopy(spec); s['channels'][ci]['samples']=[s['channels'][ci]['samples'][i] for i in p]; yield ('samples',ci,p),s
        for si,sm in enumerate(c['samples']):
            k=len(sm['modifiers'])
            if k>4: continue
            for p in itertools.permutations(range(k)):
                if list(p)==list(range(k)): continue
                s=copy.deepcopy(spec); s['channels'][ci]['samples'][si]['modifiers']=[sm['modifiers'][i] for i in p]; yield ('mods',ci,si,p),s
def check(args):
    skel,k,sh,nsh=args
    import pyhf, numpy as np
    logging.disable(logging.CRITICAL)
    bad=[]; n=0; nperm=0
    for idx,(labels,spec) in enumerate(specspace.specs(skel,k)):
        if len(labels)!=k or idx%nsh!=sh: continue
        n+=1
        before=json.dumps(spec,sort_keys=True)
        m=pyhf.Model(spec,poi_name='mu'); cfg=m.config
        if json.dumps(spec,sort_keys=True)!=before: bad.append((labels,'MUTATED'))
        # partition
        pos=0
        for name in cfg.par_order:
            sl=cfg.par_slice(name)
            if sl.start!=pos or sl.stop-sl.start!=cfg.param_set(name).n_parameters: bad.append((labels,'SLICE',name))
            pos=sl.stop
        if pos!=cfg.npars or len(cfg.suggested_init())!=pos or len(cfg.suggested_bounds())!=pos or len(cfg.suggested_fixed())!=pos or len(cfg.par_names)!=pos: bad.append((labels,'LEN'))
        pos=0
        for ch in cfg.channels:
            sl=cfg.channel_slices[ch]
            if sl.start!=pos or sl.stop-sl.start!=cfg.channel_nbins[ch]: bad.append((labels,'CHSLICE',ch))
            pos=sl.stop
        if pos!=cfg.nmaindata: bad.append((labels,'NMAIN'))
        naux=sum(cfg.param_set(nm).n_parameters for nm in cfg.auxdata_order)
        if naux!=cfg.nauxdata or len(cfg.auxdata)!=naux: bad.append((labels,'NAUX'))
        vals=sweep1.gen_point(m,2); pv=[0.]*cfg.npars
        for name,v in vals.items(): pv[cfg.par_slice(name)]=v
        data=[20.+i for i in range(cfg.nmaindata)]+[a*1.03+0.05 for a in cfg.auxdata]
        l0=m.logpdf(pv,data)[0]
        ref=(cfg.par_order,cfg.suggested_init(),cfg.suggested_bounds(),cfg.suggested_fixed(),cfg.auxdata,cfg.auxdata_order,cfg.channels,cfg.par_names)
        for lab,ps in perms(spec):
            nperm+=1
            m2=pyhf.Model(ps,poi_name='mu'); c2=m2.config
            r2=(c2.par_order,c2.suggested_init(),c2.suggested_bounds(),c2.suggested_fixed(),c2.auxdata,c2.auxdata_order,c2.channels,c2.par_names)
            if r2!=ref: bad.append((labels,'PERMCFG',lab)); continue
            if m2.logpdf(pv,data)[0]!=l0: bad.append((labels,'PERMLOGPDF',lab,l0,m2.logpdf(pv,data)[0]))
        # workspace build roundtrip
        try:
            w=pyhf.Workspace.build(m,data[:cfg.nmaindata]+cfg.auxdata)
            m3=w.model(); d3=w.data(m3)
            if d3!=data[:cfg.nmaindata]+cfg.auxdata: bad.append((labels,'BUILD-DATA'))
            if m3.config.par_order!=cfg.par_order or m3.config.suggested_init()!=cfg.suggested_init(): bad.append((labels,'BUILD-CFG'))
            if abs(m3.logpdf(pv,data)[0]-l0)>1e-12*(1+abs(l0)): bad.append((labels,'BUILD-LOGPDF'))
        except Exception as e:
            bad.append((labels,'BUILD-EXC',type(e).__name__,str(e)[:60]))
    return n,nperm,bad
if __name__=='__main__':
    tasks=[(s,k,sh,4) for s in specspace.SKEL for k in (0,1,2) for sh in range(4)]
    tot=0; totp=0; allbad=[]
    with mp_.get_context('spawn').Pool(16) as pool:
        for n,npm,bad in pool.imap_unordered(check,tasks): tot+=n; totp+=npm; allbad+=bad
    print("specs",tot,"perms",totp,"bad",len(allbad))
    import collections
    c=collections.Counter((b[1],)+tuple(b[2:4] if b[1]=='BUILD-EXC' else ()) + (tuple(sorted(set(l.split('@')[0] for l in b[0]))) if b[1] in('BUILD-EXC','BUILD-CFG','BUILD-LOGPDF') else ()) for b in allbad)
    for k,v in c.most_common(40): print("  ",v,k)
