"""Prototype reference HistFactory interpreter (pure python / mpmath)."""
import mpmath as mp
mp.mp.dps = 40

def interp_add(code, a, dn, nom, up):
    a = mp.mpf(a); dn, nom, up = map(mp.mpf, (dn, nom, up))
    du, dd = up - nom, nom - dn
    if code == 'code0':
        return a * du if a >= 0 else a * dd
    if code == 'code2':
        A = (up + dn) / 2 - nom; B = (up - dn) / 2
        if a > 1: return (B + 2 * A) * (a - 1) + (A + B)   # continuous version (ROOT)
        if a < -1: return (B - 2 * A) * (a + 1) + (A - B)
        return A * a * a + B * a
    if code == 'code4p':
        if a > 1: return du * a
        if a < -1: return dd * a
        S = (du + dd) / 2; Aa = (du - dd) / 16
        return a * (S + a * Aa * (15 + a * a * (-10 + a * a * 3)))
    raise ValueError(code)

_c4cache = {}
def _code4_coeffs(rup, rdn, a0=1):
    key = (rup, rdn, a0)
    if key in _c4cache: return _c4cache[key]
    a0 = mp.mpf(a0)
    A = mp.matrix(6, 6); b = mp.matrix(6, 1)
    lu, ld = mp.log(rup), mp.log(rdn)
    for j in range(6):
        p = j + 1
        A[0, j] = a0 ** p; A[1, j] = (-a0) ** p
        A[2, j] = p * a0 ** (p - 1); A[3, j] = p * (-a0) ** (p - 1)
        A[4, j] = p * (p - 1) * a0 ** (p - 2) if p >= 2 else 0
        A[5, j] = p * (p - 1) * (-a0) ** (p - 2) if p >= 2 else 0
    b[0] = rup ** a0 - 1; b[1] = rdn ** a0 - 1
    b[2] = lu * rup ** a0; b[3] = -ld * rdn ** a0
    b[4] = lu ** 2 * rup ** a0; b[5] = ld ** 2 * rdn ** a0
    x = mp.lu_solve(A, b)
    _c4cache[key] = [x[i] for i in range(6)]
    return _c4cache[key]

def interp_mul(code, a, lo, hi):
    a = mp.mpf(a); lo, hi = mp.mpf(lo), mp.mpf(hi)
    if code == 'code1':
        return hi ** a if a >= 0 else lo ** (-a)
    if code == 'code4':
        if a >= 1: return hi ** a
        if a <= -1: return lo ** (-a)
        c = _code4_coeffs(hi, lo)
        return 1 + sum(c[i] * a ** (i + 1) for i in range(6))
    raise ValueError(code)

def paramsets(spec):
    """name -> dict(kind, n, ...) derived from the spec by *name* only."""
    ps = {}
    chan_nb = {c['name']: len(c['samples'][0]['data']) for c in spec['channels']}
    # staterror / shapesys need per-channel info
    for c in spec['channels']:
        for s in c['samples']:
            for m in s['modifiers']:
                t, n = m['type'], m['name']
                if t in ('normsys', 'histosys'):
                    ps.setdefault(n, {'kind': 'alpha', 'n': 1})
                elif t == 'normfactor':
                    ps.setdefault(n, {'kind': 'free1', 'n': 1})
                elif t == 'lumi':
                    ps.setdefault(n, {'kind': 'lumi', 'n': 1})
                elif t == 'shapefactor':
                    ps.setdefault(n, {'kind': 'freeN', 'n': chan_nb[c['name']]})
                elif t == 'shapesys':
                    ps[n] = {'kind': 'shapesys', 'n': chan_nb[c['name']], 'channel': c['name'],
                             'tau': [(mp.mpf(x) / mp.mpf(u)) ** 2 if (x > 0 and u > 0) else None
                                     for x, u in zip(s['data'], m['data'])]}
                elif t == 'staterror':
                    d = ps.setdefault(n, {'kind': 'staterror', 'n': chan_nb[c['name']], 'channel': c['name'],
                                          'num': [mp.mpf(0)] * chan_nb[c['name']], 'den': [mp.mpf(0)] * chan_nb[c['name']]})
                    d['num'] = [a + mp.mpf(u) ** 2 for a, u in zip(d['num'], m['data'])]
                    d['den'] = [a + mp.mpf(x) for a, x in zip(d['den'], s['data'])]
    for n, d in ps.items():
        if d['kind'] == 'staterror':
            d['delta'] = [mp.sqrt(a) / b if b > 0 else mp.mpf(0) for a, b in zip(d['num'], d['den'])]
    return ps

def expected(spec, pars, codes=None, clip_sample=None, clip_bin=None):
    """pars: name -> list of values. returns channel name -> list of rates (listing-order independent)."""
    codes = codes or {'normsys': 'code4', 'histosys': 'code4p'}
    out = {}
    for c in spec['channels']:
        nb = len(c['samples'][0]['data'])
        tot = [mp.mpf(0)] * nb
        for s in c['samples']:
            for b in range(nb):
                add = mp.mpf(s['data'][b]); fac = mp.mpf(1)
                for m in s['modifiers']:
                    t, n = m['type'], m['name']; p = pars[n]
                    if t == 'histosys':
                        add += interp_add(codes['histosys'], p[0], m['data']['lo_data'][b], s['data'][b], m['data']['hi_data'][b])
                    elif t == 'normsys':
                        fac *= interp_mul(codes['normsys'], p[0], m['data']['lo'], m['data']['hi'])
                    elif t in ('normfactor', 'lumi'):
                        fac *= mp.mpf(p[0])
                    elif t in ('shapefactor', 'shapesys', 'staterror'):
                        fac *= mp.mpf(p[b])
                v = fac * add
                if clip_sample is not None: v = max(v, mp.mpf(clip_sample))
                tot[b] += v
        if clip_bin is not None: tot = [max(v, mp.mpf(clip_bin)) for v in tot]
        out[c['name']] = tot
    return out

def logpois(n, lam):
    n, lam = mp.mpf(n), mp.mpf(lam)
    if lam == 0: return mp.mpf(0) if n == 0 else -mp.inf
    return n * mp.log(lam) - lam - mp.loggamma(n + 1)
def lognorm(x, mu, sig):
    x, mu, sig = map(mp.mpf, (x, mu, sig))
    return -mp.log(sig * mp.sqrt(2 * mp.pi)) - ((x - mu) / sig) ** 2 / 2

def logpdf(spec, pars, maindata, aux, lumicfg=None, codes=None):
    """maindata: channel -> list ; aux: name -> list"""
    ps = paramsets(spec); ex = expected(spec, pars, codes)
    tot = mp.mpf(0)
    for ch, rates in ex.items():
        for n, lam in zip(maindata[ch], rates): tot += logpois(n, lam)
    for name, d in ps.items():
        k = d['kind']
        if k == 'alpha': tot += lognorm(aux[name][0], pars[name][0], 1)
        elif k == 'lumi': tot += lognorm(aux[name][0], pars[name][0], lumicfg['sigmas'][0])
        elif k == 'staterror':
            for b in range(d['n']):
                sig = d['delta'][b] if d['delta'][b] > 0 else 1
                tot += lognorm(aux[name][b], pars[name][b], sig)
        elif k == 'shapesys':
            for b in range(d['n']):
                tau = d['tau'][b] if d['tau'][b] is not None else 1
                tot += logpois(aux[name][b], mp.mpf(pars[name][b]) * tau)
    return tot
