import pyhf, numpy as np, mpmath as mp, logging
logging.disable(logging.CRITICAL)
from pyhf.infer import calculators, utils
mp.mp.dps=50
class Stub:
    class config: 
        @staticmethod
        def suggested_init(): return [1.0]
        @staticmethod
        def suggested_bounds(): return [(0,10)]
        @staticmethod
        def suggested_fixed(): return [False]
def run(q,qA,ts='qtilde',base='normal',backend='numpy'):
    pyhf.set_backend(backend); tl=pyhf.tensorlib
    seq=iter([q,qA])
    def fake_ts(mu,data,pdf,ip,pb,fp,return_fitted_pars=False):
        v=tl.astensor(next(seq)); return (v,(None,None))
    orig_get=calculators.utils.get_test_stat; orig_as=calculators.generate_asimov_data
    calculators.utils.get_test_stat=lambda name: fake_ts
    calculators.generate_asimov_data=lambda *a,**k:(None,None)
    try:
        c=calculators.AsymptoticCalculator([0.],Stub,test_stat=ts,calc_base_dist=base)
        t=c.teststatistic(1.0); sb,b=c.distributions(1.0)
        p=c.pvalues(t,sb,b); e=c.expected_pvalues(sb,b)
        return [float(np.asarray(tl.tolist(x))) for x in p],[[float(np.asarray(tl.tolist(x))) for x in r] for r in e]
    finally:
        calculators.utils.get_test_stat=orig_get; calculators.generate_asimov_data=orig_as
Phi=lambda x: mp.ncdf(x)
for backend in ['numpy','jax','pytorch','tensorflow']:
  for (q,qA) in [(3.0,2.0),(2.0,2.0),(1.0,2.0),(0.0,1e-8),(900.,1300.),(1400.,1300.)]:
    p,e=run(q,qA,backend=backend)
    sq,sqa=mp.sqrt(q),mp.sqrt(qA)
    if q<=qA: rsb,rb=Phi(-sq),Phi(-(sq-sqa))
    else: rsb,rb=Phi(-(q+qA)/(2*sqa)),Phi(-(q-qA)/(2*sqa))
    print(backend,q,qA,p[0],float(rsb),p[1],float(rb), "relerr", float(abs(p[0]-rsb)/rsb), float(abs(p[1]-rb)/rb))
print(run(3.0,2.0,base='clipped_normal')[1][2])
