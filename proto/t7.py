import pyhf, numpy as np, logging
logging.disable(logging.CRITICAL)
model = pyhf.simplemodels.uncorrelated_background([12.0,11.0],[50.0,52.0],[3.0,7.0])
mb = pyhf.simplemodels.uncorrelated_background([12.0,11.0],[50.0,52.0],[3.0,7.0], batch_size=3)
for b in ['numpy','jax','pytorch','tensorflow']:
    pyhf.set_backend(b); tl=pyhf.tensorlib
    p=tl.astensor(np.array(model.config.suggested_init()))
    s=model.make_pdf(p).sample((5,))
    print(b, tl.shape(s), s.dtype, tl.tolist(s)[0])
    try:
        pb=tl.astensor(np.array([model.config.suggested_init()]*3))
        sb=mb.make_pdf(pb).sample((5,))
        print("   batched", tl.shape(sb))
    except Exception as e: print("   batched FAIL", type(e).__name__, str(e)[:100])
    try:
        d=pyhf.infer.calculators.EmpiricalDistribution(tl.astensor(np.array([0.,1.,1.,2.5])))
        print("   pvalue(1)=",float(d.pvalue(1.0)), "expected_value(0)=", end='')
        print(float(d.expected_value(0)))
    except Exception as e: print("FAIL", type(e).__name__, str(e)[:100])
