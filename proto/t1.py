import sys; sys.path.insert(0,'/tmp/proto')
import refhf, pyhf, logging, mpmath as mp
logging.disable(logging.CRITICAL)
spec = {'channels':[
 {'name':'zc','samples':[
   {'name':'sig','data':[5.,6.],'modifiers':[{'name':'mu','type':'normfactor','data':None},{'name':'lumi','type':'lumi','data':None},{'name':'st','type':'staterror','data':[1.,0.5]}]},
   {'name':'bkg','data':[50.,60.],'modifiers':[{'name':'h','type':'histosys','data':{'lo_data':[45.,58.],'hi_data':[56.,63.]}},{'name':'n','type':'normsys','data':{'lo':0.9,'hi':1.1}},{'name':'st','type':'staterror','data':[3.,4.]},{'name':'ss','type':'shapesys','data':[5.,6.]}]}]},
 {'name':'ab','samples':[
   {'name':'bkg','data':[30.,20.,10.],'modifiers':[{'name':'n','type':'normsys','data':{'lo':0.95,'hi':1.07}},{'name':'sf','type':'shapefactor','data':None},{'name':'h','type':'normsys','data':{'lo':0.8,'hi':1.3}}]}]}],
 'parameters':[{'name':'lumi','auxdata':[1.1],'sigmas':[0.02],'bounds':[[0.5,1.5]],'inits':[1.1]}]}
m=pyhf.Model(spec,poi_name='mu')
print(m.config.par_order, m.config.auxdata_order, m.config.channels)
vals={'mu':[1.3],'lumi':[1.07],'st':[0.9,1.2],'h':[-1.7],'n':[0.6],'ss':[1.1,0.8],'sf':[0.7,1.4,2.2]}
aux={'lumi':[1.13],'st':[1.05,0.97],'h':[0.3],'n':[-0.2],'ss':[90.,110.]}
pv=[0.]*m.config.npars
for k,v in vals.items(): pv[m.config.par_slice(k)]=v
ex=refhf.expected(spec,vals)
got=m.expected_actualdata(pv)
for ch in m.config.channels:
    print(ch,[float(x) for x in ex[ch]], list(got[m.config.channel_slices[ch]]))
# aux vector by auxdata_order
av=[]
for n in m.config.auxdata_order: av+=aux[n]
main={'zc':[52.,70.],'ab':[33.,18.5,0.]}
dv=[]
for ch in m.config.channels: dv+=main[ch]
ref=refhf.logpdf(spec,vals,main,aux,lumicfg={'sigmas':[0.02]})
print(float(ref), m.logpdf(pv,dv+av)[0], float(ref)-m.logpdf(pv,dv+av)[0])
print(m.config.auxdata)
