import sys; sys.path.insert(0,'/tmp/proto')
import pyhf, logging, refhf
logging.disable(logging.CRITICAL)
spec = {'channels':[{'name':'c','samples':[
   {'name':'sig','data':[5.,6.],'modifiers':[{'name':'mu','type':'normfactor','data':None}]},
   {'name':'bkg','data':[50.,60.],'modifiers':[{'name':'n','type':'normsys','data':{'lo':0.9,'hi':1.1}},{'name':'st','type':'staterror','data':[3.,4.]},{'name':'ss','type':'shapesys','data':[5.,6.]}]}]}],
 'parameters':[]}
def tryp(pars):
    s=dict(spec); s['parameters']=pars
    try:
        m=pyhf.Model(s,poi_name='mu'); c=m.config
        print(pars, "-> auxdata",c.auxdata,"init",c.suggested_init(),"bounds",c.suggested_bounds()[:2],"fixed",c.suggested_fixed())
        ps=[c.param_set(n) for n in c.auxdata_order]
        print("     widths",[getattr(p,'sigmas',None) or getattr(p,'factors',None) for p in ps], c.auxdata_order)
    except Exception as e: print(pars,"REJECT",type(e).__name__,str(e)[:90])
tryp([{'name':'n','auxdata':[0.5]}])
tryp([{'name':'n','sigmas':[2.0]}])
tryp([{'name':'st','sigmas':[0.1,0.2]}])
tryp([{'name':'st','auxdata':[1.1,0.9]}])
tryp([{'name':'ss','factors':[50.,70.]}])
tryp([{'name':'ss','auxdata':[90.,110.]}])
tryp([{'name':'ss','fixed':True}])
tryp([{'name':'st','inits':[1.1,0.9],'bounds':[[0.5,1.5],[0.2,3]]}])
tryp([{'name':'mu','inits':[2.0],'bounds':[[-5,5]],'fixed':True}])
tryp([{'name':'unused','inits':[2.0]}])
tryp([{'name':'mu','factors':[2.0]}])
