import pyhf, numpy as np, mpmath as mp, logging, itertools, time
logging.disable(logging.CRITICAL)
mp.mp.dps=40
def spec1(s,b):
    return {'channels':[{'name':'c','samples':[{'name':'sig','data':s,'modifiers':[{'name':'mu','type':'normfactor','data':None}]},{'name':'bkg','data':b,'modifiers':[]}]}]}
def nll2(mu,s,b,n):
    tot=mp.mpf(0)
    for si,bi,ni in zip(s,b,n):
        nu=mu*si+bi
        tot+= nu - (ni*mp.log(nu) if ni>0 else 0) + mp.loggamma(ni+1)
    return 2*tot
def muhat(s,b,n,lo,hi):
    f=lambda mu: sum(si - (ni*si/(mu*si+bi)) for si,bi,ni in zip(s,b,n))
    # convex: derivative increasing
    lo,hi=mp.mpf(lo),mp.mpf(hi)
    if f(lo)>=0: return lo
    if f(hi)<=0: return hi
    return mp.findroot(f,(lo,hi),solver='anderson',tol=1e-30)
def Phi(x): return mp.ncdf(x)
def ref_cls(s,b,n,mu,lo=0,hi=10):
    mh=muhat(s,b,n,lo,hi); t=nll2(mu,s,b,n)-nll2(mh,s,b,n); q=0 if mh>mu else max(t,0)
    nA=[bi for bi in b]  # asimov mu=0
    mhA=muhat(s,b,nA,lo,hi); qA=max(nll2(mu,s,b,nA)-nll2(mhA,s,b,nA),0) if mhA<=mu else 0
    sq,sqa=mp.sqrt(q),mp.sqrt(qA)
    if q<=qA: sb,bo=Phi(-sq),Phi(-(sq-sqa))
    else: sb,bo=Phi(-(q+qA)/(2*sqa)),Phi(-(q-qA)/(2*sqa))
    exp=[Phi(-N-sqa)/Phi(-N) for N in (2,1,0,-1,-2)]
    return float(sb/bo),[float(x) for x in exp],float(q),float(mh)
worst={}
for optname,opt in [('scipy',None),('minuit','minuit')]:
    pyhf.set_backend('numpy',opt)
    for s,b in [([5.],[50.]),([3.,7.],[20.,35.]),([10.,2.,6.],[40.,12.,25.])]:
        m=pyhf.Model(spec1(s,b),poi_name='mu')
        lat=[ [0, int(bi-2*bi**.5), int(bi), bi+0.5*si, int(bi+si+2*(bi+si)**.5)+1] for si,bi in zip(s,b)]
        t0=time.time(); cnt=0
        for n in itertools.product(*lat):
            for mu in [0.25,1.0,2.0,4.0]:
                try:
                    r=pyhf.infer.hypotest(mu,list(map(float,n)),m,return_expected_set=True)
                except Exception as e:
                    print("FAIL",optname,s,b,n,mu,type(e).__name__,str(e)[:60]); continue
                ref=ref_cls(s,b,list(n),mu); cnt+=1
                d=abs(float(r[0])-ref[0]); de=max(abs(float(x)-y) for x,y in zip(r[1],ref[1]))
                key=(optname,len(s))
                if max(d,de)>worst.get(key,(0,))[0]: worst[key]=(max(d,de),n,mu,float(r[0]),ref[0])
        print(optname,s,"cases",cnt,"time",round(time.time()-t0,1))
for k,v in worst.items(): print(k,v)
