import sys, time, logging, copy, itertools, json, collections, multiprocessing as mp_
sys.path.insert(0,'/tmp/proto')
import specspace
BINWISE={'shapesys','staterror','shapefactor'}
def faults(spec):
    S=lambda: copy.deepcopy(spec)
    chans=spec['channels']
    # (a) duplicate channel name: append a copy of channel i renamed? -> duplicate an existing channel with modified nominal
    for ci,c in enumerate(chans):
        s=S(); d=copy.deepcopy(c); 
        for sm in d['samples']: sm['data']=[x+1 for x in sm['data']]
        s['channels'].insert((ci+1)%(len(chans)+1),d); yield ('a_dup_channel',ci),s
    for ci,c in enumerate(chans):
        for si,sm in enumerate(c['samples']):
            # (b) duplicate sample name
            s=S(); d=copy.deepcopy(sm); d['data']=[x+2 for x in d['data']]; s['channels'][ci]['samples'].append(d); yield ('b_dup_sample',ci,si),s
            # (d) sample length mismatch (not for first sample -> defines nbins; do both)
            s=S(); s['channels'][ci]['samples'][si]['data']=sm['data']+[1.0]; 
            if len(c['samples'])>1 or True: yield ('d_sample_len',ci,si),s
            for mi,m in enumerate(sm['modifiers']):
                t=m['type']
                # (c) same (name,type) twice with different data
                if t in ('normsys','histosys','shapesys','staterror'):
                    s=S(); d=copy.deepcopy(m)
                    if t=='normsys': d['data']={'lo':0.5,'hi':1.5}
                    elif t=='histosys': d['data']={'lo_data':[x*0.5 for x in sm['data']],'hi_data':[x*1.5 for x in sm['data']]}
                    else: d['data']=[x*0.33 for x in sm['data']]
                    s['channels'][ci]['samples'][si]['modifiers'].append(d); yield ('c_dup_modifier',t),s
                # (e) modifier data length
                if t=='histosys':
                    for key in ('lo_data','hi_data'):
                        s=S(); s['channels'][ci]['samples'][si]['modifiers'][mi]['data'][key]=m['data'][key][:-1] if len(m['data'][key])>1 else m['data'][key]+[1.0]; yield ('e_modlen',t,key),s
                if t in ('shapesys','staterror'):
                    s=S(); s['channels'][ci]['samples'][si]['modifiers'][mi]['data']=m['data']+[1.0]; yield ('e_modlen',t),s
                # (h) conflicting constraint type/size: add modifier of another type with same name on another (or same) cell
                for t2 in ('normsys','normfactor','shapefactor','shapesys','staterror','histosys'):
                    if t2==t or {t,t2}=={'normsys','histosys'} or t=='lumi': continue
                    s=S()
                    data={'normsys':{'lo':0.9,'hi':1.1},'normfactor':None,'shapefactor':None,'shapesys':[1.0]*len(sm['data']),'staterror':[1.0]*len(sm['data']),'histosys':{'lo_data':sm['data'],'hi_data':sm['data']}}[t2]
                    s['channels'][ci]['samples'][si]['modifiers'].append({'name':m['name'],'type':t2,'data':data}); yield ('h_conflict',t,t2),s
                # (i) override wrong length
                for key,val in (('inits',[1.0]*7),('bounds',[[0,1]]*7),('auxdata',[1.0]*7)):
                    if m['name']=='lumi': continue
                    s=S(); s['parameters']=[p for p in s['parameters'] if p['name']!=m['name']]+[{'name':m['name'],key:val}]; yield ('i_override_len',t,key),s
                # (k) lumi without settings
                if t=='lumi':
                    s=S(); s['parameters']=[p for p in s['parameters'] if p['name']!='lumi']; yield ('k_lumi_nocfg',),s
                    s=S(); s['parameters']=[{'name':'lumi','auxdata':[1.0],'sigmas':[0.1]}]; yield ('k_lumi_partial',),s
                # (l) duplicate parameter config
                s=S(); s['parameters']=s['parameters']+[{'name':m['name'],'fixed':True},{'name':m['name'],'fixed':False}]; yield ('l_dup_parcfg',),s
                # (f)/(g) bin-wise modifier shared with other-size / other-coverage place
                if t in ('shapefactor','staterror'):
                    for cj,c2 in enumerate(chans):
                        if cj==ci: continue
                        for sj,sm2 in enumerate(c2['samples']):
                            if any(x['name']==m['name'] for x in sm2['modifiers']): continue
                            s=S(); data=None if t=='shapefactor' else [0.1*x for x in sm2['data']]
                            s['channels'][cj]['samples'][sj]['modifiers'].append({'name':m['name'],'type':t,'data':data})
                            rel='same' if len(sm2['data'])==len(sm['data']) else ('bigger' if len(sm2['data'])>len(sm['data']) else 'smaller')
                            samesample = sm2['name']==sm['name']
                            yield (('f_shapefactor_share' if t=='shapefactor' else 'g_staterror_share'),rel,'samesample' if samesample else 'othersample'),s
                if t=='shapesys':
                    for sj,sm2 in enumerate(c['samples']):
                        if sj==si: continue
                        s=S(); s['channels'][ci]['samples'][sj]['modifiers'].append({'name':m['name'],'type':'shapesys','data':[0.1*x for x in sm2['data']]}); yield ('m_shapesys_reuse',),s
    # (j) undefined poi handled by caller
def check(args):
    skel,k=args
    import pyhf
    logging.disable(logging.CRITICAL)
    out=collections.Counter(); ex={}
    n=0
    for labels,spec in specspace.specs(skel,k):
        if len(labels)!=k: continue
        pyhf.Model(spec,poi_name='mu')  # unfaulted must build
        for f,fs in faults(spec):
            n+=1
            try:
                m=pyhf.Model(fs,poi_name='mu'); res='ACCEPTED'
            except Exception as e:
                mod=type(e).__module__
                res=('pyhf:' if mod.startswith('pyhf') else 'OTHER:')+type(e).__name__
            key=(f[0],)+tuple(x for x in f[1:] if isinstance(x,str)); out[(key,res)]+=1
            ex.setdefault((key,res),(labels,f))
        try: pyhf.Model(spec,poi_name='nope'); out[(('j_undefined_poi',),'ACCEPTED')]+=1
        except Exception as e: out[(('j_undefined_poi',),('pyhf:' if type(e).__module__.startswith('pyhf') else 'OTHER:')+type(e).__name__)]+=1
    return n,out,ex
if __name__=='__main__':
    tasks=[(s,k) for s in specspace.SKEL for k in (0,1)]
    tot=0; allc=collections.Counter()
    with mp_.get_context('spawn').Pool(8) as pool:
        for n,out,ex in pool.imap_unordered(check,tasks): tot+=n; allc.update(out)
    print("faulted specs",tot)
    for (key,res),v in sorted(allc.items()): print(f"  {str(key):70s} {res:35s} {v}")
