import pyhf, gc, logging, numpy as np
logging.disable(logging.CRITICAL)
ev=pyhf.events.__dict__['__events']
def nsub():
    c=ev.get('tensorlib_changed'); return len(c) if c is not None else 0
spec = {'channels':[{'name':'c','samples':[
   {'name':'sig','data':[5.,6.],'modifiers':[{'name':'mu','type':'normfactor','data':None}]},
   {'name':'bkg','data':[50.,60.],'modifiers':[{'name':'n','type':'normsys','data':{'lo':0.9,'hi':1.1}},{'name':'st','type':'staterror','data':[3.,4.]},{'name':'ss','type':'shapesys','data':[5.,6.]}]}]}]}
print("start",nsub())
m=pyhf.Model(spec,poi_name='mu'); a=nsub(); print("after model",a)
mb=pyhf.Model(spec,poi_name='mu',batch_size=2); b=nsub(); print("after batched",b)
it=pyhf.interpolators.code4([[[[0.9,0.8],[1.,1.],[1.1,1.3]]]]); c=nsub(); print("after interp",c)
del m; gc.collect(); print("after del model",nsub(), "expected", c-a)
pyhf.set_backend('pytorch'); print("after switch",nsub())
del mb; gc.collect(); print("after del batched", nsub())
pyhf.set_backend('jax'); 
m2=pyhf.Model(spec,poi_name='mu'); d=nsub()
r=pyhf.infer.mle.fit(pyhf.tensorlib.astensor(np.array([55.,66.]+m2.config.auxdata)), m2)
del m2, r; gc.collect(); print("after jax fit + del", nsub(), "(was", d, ") -> leak if not", d-(a))
import jax; jax.clear_caches(); gc.collect(); print("after clear_caches", nsub())
