import sys, time, gc, itertools, logging
import pyhf, numpy as np
logging.disable(logging.CRITICAL)
spec = {'channels':[
 {'name':'zc','samples':[
   {'name':'sig','data':[5.,6.],'modifiers':[{'name':'mu','type':'normfactor','data':None},{'name':'lumi','type':'lumi','data':None},{'name':'st','type':'staterror','data':[1.,0.5]}]},
   {'name':'bkg','data':[50.,60.],'modifiers':[{'name':'h','type':'histosys','data':{'lo_data':[45.,58.],'hi_data':[56.,63.]}},{'name':'n','type':'normsys','data':{'lo':0.9,'hi':1.1}},{'name':'st','type':'staterror','data':[3.,4.]},{'name':'ss','type':'shapesys','data':[5.,6.]}]}]},
 {'name':'ab','samples':[
   {'name':'bkg','data':[30.,20.,10.],'modifiers':[{'name':'n','type':'normsys','data':{'lo':0.95,'hi':1.07}},{'name':'sf','type':'shapefactor','data':None}]}]}],
 'parameters':[{'name':'lumi','auxdata':[1.1],'sigmas':[0.02],'bounds':[[0.5,1.5]],'inits':[1.1]}]}
ev = pyhf.events.__dict__['__events']
def ncb(): 
    c=ev.get('tensorlib_changed'); return len(c._callbacks) if c else 0
cfgs=[('numpy','64b'),('numpy','32b'),('jax','64b'),('pytorch','64b'),('pytorch','32b'),('tensorflow','64b'),('jax','32b'),('tensorflow','32b')]
pars=np.array([0.3,1.07,1.3,-0.6,0.7,1.4,2.2,1.1,0.8,0.9,1.2]); 
def obs(m):
    tl=pyhf.tensorlib
    d=np.array([52.,70.,33.,18.5,0.]+[0.3,1.13,-0.2,90.,110.,1.05,0.97])
    e=m.expected_data(tl.astensor(pars)); l=m.logpdf(tl.astensor(pars),tl.astensor(d))
    return (type(e).__name__, str(e.dtype), tuple(np.asarray(tl.tolist(e)).tolist()), str(l.dtype), tuple(np.asarray(tl.tolist(l)).ravel().tolist()))
t0=time.time(); n=0; bad=0
for c0 in cfgs[:6]:
  for c1 in cfgs[:6]:
    for c2 in cfgs[:6]:
      pyhf.set_backend(c0[0],precision=c0[1]); m=pyhf.Model(spec,poi_name='mu')
      pyhf.set_backend(c1[0],precision=c1[1]); o1=obs(m); 
      pyhf.set_backend(c2[0],precision=c2[1]); o=obs(m)
      f=pyhf.Model(spec,poi_name='mu'); of=obs(f)
      n+=1
      if o!=of:
          bad+=1; print("DIFF",c0,c1,c2,o[:2],of[:2], np.max(np.abs(np.array(o[2])-np.array(of[2]))))
      del m,f
print("histories",n,"bad",bad,"time",time.time()-t0,"callbacks",ncb()); gc.collect(); pyhf.set_backend('numpy'); print("callbacks after gc+switch",ncb())
