import sys, time, logging, collections, multiprocessing as mp_
sys.path.insert(0,'/tmp/proto')
import specspace, sweep1
def check(args):
    skel,k,sh,nsh,backend=args
    import pyhf, numpy as np, mpmath as mp, refhf
    from pyhf.optimize.common import shim
    from pyhf.infer.mle import twice_nll
    logging.disable(logging.CRITICAL)
    pyhf.set_backend(backend); tl=pyhf.tensorlib
    bad=[]; n=0; worst=0
    for idx,(labels,spec) in enumerate(specspace.specs(skel,k)):
        if len(labels)!=k or idx%nsh!=sh: continue
        n+=1
        m=pyhf.Model(spec,poi_name='mu'); cfg=m.config
        lumicfg=next((p for p in spec['parameters'] if p['name']=='lumi'),None)
        for kind in (1,2):
            vals=sweep1.gen_point(m,kind); pv=[0.]*cfg.npars
            for name,v in vals.items(): pv[cfg.par_slice(name)]=v
            main={}; dv=[]
            for ci,ch in enumerate(cfg.channels):
                nb=cfg.channel_nbins[ch]; main[ch]=[float(int(20+3*ci+2*b)) for b in range(nb)]; dv+=main[ch]
            aux={}; av=[]; off=0
            for name in cfg.auxdata_order:
                ps=cfg.param_set(name); nom=cfg.auxdata[off:off+ps.n_parameters]; off+=ps.n_parameters
                aux[name]=[float(x)*(1.05+0.01*j)+0.07*(j+1) for j,x in enumerate(nom)]; av+=aux[name]
            kw,_=shim(twice_nll, tl.astensor(np.array(dv+av)), m, pv, cfg.suggested_bounds(), fixed_vals=[], do_grad=True, do_stitch=False)
            v,g=kw['func'](tl.astensor(np.array(pv))); g=np.asarray(tl.tolist(g),dtype=float)
            def f(*x):
                vv={nm:list(x[cfg.par_slice(nm)]) for nm in cfg.par_order}
                return -2*refhf.logpdf(spec,vv,main,aux,lumicfg=lumicfg)
            for i in range(cfg.npars):
                gi=float(mp.diff(lambda t,i=i: f(*[mp.mpf(p) if j!=i else t for j,p in enumerate(pv)]), mp.mpf(pv[i])))
                err=abs(g[i]-gi)/(1+abs(gi)); worst=max(worst,err)
                if err>1e-9: bad.append((labels,kind,cfg.par_names[i],g[i],gi)); break
    return n,worst,bad
if __name__=='__main__':
    backend=sys.argv[1]; kmax=int(sys.argv[2])
    tasks=[(s,k,sh,4,backend) for s in specspace.SKEL for k in range(kmax+1) for sh in range(4)]
    tot=0; allbad=[]; w=0
    with mp_.get_context('spawn').Pool(16) as pool:
        for n,worst,bad in pool.imap_unordered(check,tasks): tot+=n; allbad+=bad; w=max(w,worst)
    print(backend,"specs",tot,"worst rel err",w,"bad",len(allbad))
    for b in allbad[:10]: print("  ",b)
