import pyhf, numpy as np, copy, logging, time, itertools
logging.disable(logging.CRITICAL)
spec = {'channels':[
 {'name':'zc','samples':[
   {'name':'sig','data':[8.,12.],'modifiers':[{'name':'mu','type':'normfactor','data':None},{'name':'lumi','type':'lumi','data':None},{'name':'st','type':'staterror','data':[1.,0.5]}]},
   {'name':'bkg','data':[50.,60.],'modifiers':[{'name':'h','type':'histosys','data':{'lo_data':[45.,58.],'hi_data':[56.,63.]}},{'name':'n','type':'normsys','data':{'lo':0.9,'hi':1.1}},{'name':'st','type':'staterror','data':[3.,4.]},{'name':'ss','type':'shapesys','data':[5.,6.]}]}]},
 {'name':'ab','samples':[
   {'name':'sig','data':[3.,2.,1.],'modifiers':[{'name':'mu','type':'normfactor','data':None}]},
   {'name':'bkg','data':[30.,20.,10.],'modifiers':[{'name':'n','type':'normsys','data':{'lo':0.95,'hi':1.07}},{'name':'sf','type':'shapefactor','data':None}]}]}],
 'parameters':[{'name':'lumi','auxdata':[1.0],'sigmas':[0.02],'bounds':[[0.5,1.5]],'inits':[1.0]}]}
obs={'zc':[55.,70.],'ab':[33.,18.,12.]}
def data_for(m):
    d=[]
    for c in m.config.channels: d+=obs[c]
    return d+m.config.auxdata
def run(spec, tight):
    m=pyhf.Model(spec,poi_name='mu')
    d=data_for(m)
    t=time.time()
    r=pyhf.infer.hypotest(1.0,d,m,return_expected_set=True,return_tail_probs=True)
    f=pyhf.infer.mle.fit(d,m,return_fitted_val=True)
    return float(r[0]), [float(x) for x in r[2]], float(f[1]), time.time()-t
def permuted(spec):
    s=copy.deepcopy(spec); s['channels'].reverse()
    for c in s['channels']:
        c['samples'].reverse()
        for sm in c['samples']: sm['modifiers'].reverse()
    return s
for optname,opt in [('scipy default',pyhf.optimize.scipy_optimizer()),('scipy tight',pyhf.optimize.scipy_optimizer(tolerance=1e-10)),('minuit default',pyhf.optimize.minuit_optimizer()),('minuit tight',pyhf.optimize.minuit_optimizer(tolerance=1e-4))]:
    pyhf.set_backend('numpy',opt)
    a=run(spec,0); b=run(permuted(spec),0)
    print(optname,"CLs",a[0],b[0],"diff",abs(a[0]-b[0]),"exp diff",max(abs(x-y) for x,y in zip(a[1],b[1])),"2nll diff",abs(a[2]-b[2]),"t",round(a[3],2))
