import pyhf, numpy as np, itertools, logging, time, scipy.optimize as so
logging.disable(logging.CRITICAL)
specs={}
specs['full']= {'channels':[
 {'name':'zc','samples':[
   {'name':'sig','data':[8.,12.],'modifiers':[{'name':'mu','type':'normfactor','data':None},{'name':'lumi','type':'lumi','data':None},{'name':'st','type':'staterror','data':[1.,0.5]}]},
   {'name':'bkg','data':[50.,60.],'modifiers':[{'name':'h','type':'histosys','data':{'lo_data':[45.,58.],'hi_data':[56.,63.]}},{'name':'n','type':'normsys','data':{'lo':0.9,'hi':1.1}},{'name':'st','type':'staterror','data':[3.,4.]},{'name':'ss','type':'shapesys','data':[5.,6.]}]}]},
 {'name':'ab','samples':[
   {'name':'sig','data':[3.,2.,1.],'modifiers':[{'name':'mu','type':'normfactor','data':None}]},
   {'name':'bkg','data':[30.,20.,10.],'modifiers':[{'name':'n','type':'normsys','data':{'lo':0.95,'hi':1.07}},{'name':'sf','type':'shapefactor','data':None}]}]}],
 'parameters':[{'name':'lumi','auxdata':[1.0],'sigmas':[0.02],'bounds':[[0.5,1.5]],'inits':[1.0]}]}
specs['shapesys']={'channels':[{'name':'c','samples':[{'name':'sig','data':[12.,11.],'modifiers':[{'name':'mu','type':'normfactor','data':None}]},{'name':'bkg','data':[50.,52.],'modifiers':[{'name':'ss','type':'shapesys','data':[3.,7.]}]}]}]}
specs['histonorm']={'channels':[{'name':'c','samples':[{'name':'sig','data':[6.,9.,4.],'modifiers':[{'name':'mu','type':'normfactor','data':None}]},{'name':'bkg','data':[40.,55.,30.],'modifiers':[{'name':'h','type':'histosys','data':{'lo_data':[36.,52.,31.],'hi_data':[45.,57.,28.]}},{'name':'n','type':'normsys','data':{'lo':0.85,'hi':1.2}}]}]}]}
def indep(m,data,fixed=None):
    cfg=m.config; b=[list(x) for x in cfg.suggested_bounds()]
    if fixed is not None: b[cfg.poi_index]=[fixed,fixed]
    f=lambda x: float(-2*m.logpdf(x,data)[0])
    best=np.inf
    starts=[np.array(cfg.suggested_init())]
    rng=np.random.RandomState(1)
    for _ in range(4): starts.append(np.array([lo+(hi-lo)*rng.uniform(0.3,0.7) for lo,hi in b]))
    for x0 in starts:
        x0=np.clip(x0,[l for l,h in b],[h for l,h in b])
        r=so.minimize(f,x0,method='L-BFGS-B',bounds=b,options={'ftol':1e-15,'gtol':1e-10,'maxiter':5000})
        if np.isfinite(r.fun): best=min(best,r.fun)
    return best
for optname in ['scipy','minuit']:
    pyhf.set_backend('numpy',optname)
    for name,spec in specs.items():
        m=pyhf.Model(spec,poi_name='mu'); cfg=m.config
        nu=m.expected_actualdata(cfg.suggested_init())
        lat=[[max(0,int(v-2*v**.5)), float(v)+0.37, int(v+2*v**.5)+1] for v in nu]
        gaps=[]; t0=time.time(); fails=0
        for n in itertools.product(*lat):
            data=list(map(float,n))+cfg.auxdata
            for fixed in (None,1.0):
                try:
                    if fixed is None: x,v=pyhf.infer.mle.fit(data,m,return_fitted_val=True)
                    else: x,v=pyhf.infer.mle.fixed_poi_fit(fixed,data,m,return_fitted_val=True)
                except Exception as e: fails+=1; continue
                gaps.append(float(v)-indep(m,data,fixed))
        gaps=np.array(gaps)
        print(optname,name,"fits",len(gaps),"fails",fails,"gap max",gaps.max(),"min",gaps.min(),"95%",np.percentile(gaps,95),"t",round(time.time()-t0,1))
