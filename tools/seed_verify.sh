#!/bin/bash
# verify.sh <wt> <i>  : demo passes clean, fails patched
wt=$1; i=$2
cd $wt || exit 9
git status --porcelain | grep -v '^??' && { echo "DIRTY $wt"; exit 9; }
PYTHONPATH=$wt/src timeout 900 /venv/bin/python seed${i}_demo.py >/tmp/wt/out_clean.txt 2>&1; a=$?
git apply seed${i}_patch.diff || { echo "APPLY FAILED"; exit 9; }
PYTHONPATH=$wt/src timeout 900 /venv/bin/python seed${i}_demo.py >/tmp/wt/out_patched.txt 2>&1; b=$?
git checkout -- .
echo "$wt seed$i clean_exit=$a patched_exit=$b files=$(grep -c '^diff --git' seed${i}_patch.diff) :: $(tail -1 /tmp/wt/out_patched.txt | cut -c1-150)"
