#!/bin/bash
# usage: tools/run_all.sh <tier> <seed> [checks...]   -- runs every check once, prints one summary line per check
tier=${1:-quick}; seed=${2:-0}; shift 2
checks=${@:-C01 C02 C03 C04 C05 C06 C07 C08 C09 C10 C11 C12 C13 C14 C15 C16 C17 C18 C19 C20}
cd "$(dirname "$0")/.."
rc=0
for c in $checks; do
  s=$(date +%s)
  out=$(VERIF_SEED=$seed ./vcheck $c --tier $tier 2>&1 | tr "\r" "\n" | grep -E "^C[0-9]+ tier|VIOLATION|KNOWN-FINDING|HARNESS-FAULT|NONREPRODUCIBLE|Traceback" | cut -c1-260)
  e=$?
  echo "== $c seed=$seed tier=$tier $(( $(date +%s) - s ))s"; echo "$out"
  echo "$out" | grep -q -E "VIOLATION|HARNESS-FAULT|NONREPRODUCIBLE|Traceback" && rc=1
done
echo "ALL-DONE rc=$rc"
exit $rc
