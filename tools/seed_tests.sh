#!/bin/bash
# tests.sh <wt> <i> : run a representative subset of the existing tests with the patch applied
wt=$1; i=$2
cd $wt || exit 9
git apply seed${i}_patch.diff || exit 9
PYTHONPATH=$wt/src timeout 3000 /venv/bin/python -m pytest -q -p no:cacheprovider -W ignore::DeprecationWarning -W ignore::UserWarning -x \
  tests/test_pdf.py tests/test_modifiers.py tests/test_combined_modifiers.py tests/test_interpolate.py tests/test_infer.py tests/test_workspace.py \
  tests/test_constraints.py tests/test_mixins.py tests/test_paramsets.py tests/test_simplemodels.py tests/test_validation.py tests/test_tensorviewer.py tests/test_calculator.py \
  tests/test_teststats.py tests/test_patchset.py tests/test_export.py tests/test_import.py tests/test_toys.py tests/test_backend_consistency.py tests/test_jit.py tests/test_probability.py tests/test_events.py tests/test_init.py tests/test_schema.py tests/test_utils.py \
  --deselect tests/test_infer.py::test_asymptotic_dist_low_pvalues --deselect tests/test_infer.py::test_significance_to_pvalue_roundtrip 2>&1 | tail -3 > /tmp/wt/tests_$(basename $wt)_$i.txt
git checkout -- .
echo "$(basename $wt) seed$i: $(tail -1 /tmp/wt/tests_$(basename $wt)_$i.txt)"
