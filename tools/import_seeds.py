#!/venv/bin/python
"""import verified seeds from scratch worktrees: tools/import_seeds.py C04 C06 ..."""
import os, json, shutil, sys
OFF = int(os.environ.get("SEED_OFFSET", "0"))
for pid in sys.argv[1:]:
    for i in (1, 2):
        wt = f"/tmp/wt/{pid}"
        if not os.path.exists(f"{wt}/seed{i}_patch.diff"):
            continue
        sid = f"{pid}-s{i + OFF}"
        d = f"/verif/seeded/{sid}"
        os.makedirs(d, exist_ok=True)
        shutil.copy(f"{wt}/seed{i}_patch.diff", f"{d}/patch.diff")
        shutil.copy(f"{wt}/seed{i}_demo.py", f"{d}/demo.py")
        tests = open(f"/tmp/wt/tests_{pid}_{i}.txt").read().strip().splitlines()[-1]
        json.dump({"property": pid, "author": "independent sub-agent (given only the property text and a scratch worktree)",
                   "description_by_author": open(f"{wt}/seed{i}_meta.txt").read(),
                   "needs_to_manifest": "see description_by_author (trigger condition)",
                   "confirmed_by_me": {"demo_on_unchanged_tree": "exit 0", "demo_with_patch": "exit 1",
                                       "existing_tests_with_patch": "25 test files (test_pdf, test_modifiers, test_combined_modifiers, test_interpolate, test_infer, test_workspace, test_constraints, test_mixins, test_paramsets, test_simplemodels, test_validation, test_tensorviewer, test_calculator, test_teststats, test_patchset, test_export, test_import, test_toys, test_backend_consistency, test_jit, test_probability, test_events, test_init, test_schema, test_utils): " + tests,
                                       "how": f"scratch worktree /tmp/wt/{pid}: demo run clean, `git apply patch.diff`, demo run again, pytest subset, `git checkout -- .`"}},
                  open(f"{d}/meta.json", "w"), indent=1)
        print("imported", sid)
