#!/venv/bin/python
"""Apply each kept seeded change (seeded/<id>/patch.diff) to /repo, run the check(s) of the property it breaks, undo it, and
write seeded/INDEX.md (which check catches which change).  /repo must be clean; every patch is reverted immediately.

usage: tools/run_seeded.py [--tier quick|thorough] [--only id ...] [--all-checks]"""
import argparse, json, os, subprocess, sys, time

ROOT = os.path.dirname(os.path.dirname(os.path.abspath(__file__)))


def sh(*a, **k):
    return subprocess.run(*a, capture_output=True, text=True, **k)


def main():
    ap = argparse.ArgumentParser()
    ap.add_argument("--tier", default="quick")
    ap.add_argument("--only", nargs="*")
    ap.add_argument("--checks", nargs="*", help="run these checks instead of the seeded property's own")
    a = ap.parse_args()
    if sh(["git", "-C", "/repo", "status", "--porcelain"]).stdout.strip():
        sys.exit("/repo is not clean")
    rows = []
    ids = sorted(d for d in os.listdir(os.path.join(ROOT, "seeded")) if os.path.isdir(os.path.join(ROOT, "seeded", d)))
    for sid in ids:
        if a.only and sid not in a.only:
            continue
        d = os.path.join(ROOT, "seeded", sid)
        meta = json.load(open(os.path.join(d, "meta.json")))
        checks = a.checks or meta.get("checks") or [meta["property"]]
        r = sh(["git", "-C", "/repo", "apply", os.path.join(d, "patch.diff")])
        if r.returncode:
            rows.append((sid, meta["property"], "PATCH DOES NOT APPLY", "", ""))
            continue
        try:
            for c in checks:
                t = time.time()
                r = sh([os.path.join(ROOT, "vcheck"), c, "--tier", a.tier], cwd=ROOT, env={**os.environ, "VCHECK_NO_CONFIRM": "1"})
                viol = [l for l in r.stdout.splitlines() if l.startswith("VIOLATION")]
                keys = sorted({l.split("key=")[1].split()[0] for l in viol if "key=" in l})
                rows.append((sid, meta["property"], c, "caught" if viol and r.returncode == 1 else f"MISSED (exit {r.returncode})", ", ".join(keys)[:200], round(time.time() - t)))
                print(rows[-1], flush=True)
        finally:
            sh(["git", "-C", "/repo", "checkout", "--", "."])
            sh(["git", "-C", "/repo", "clean", "-fdq", "src"])
    if not a.checks:
        # results are accumulated in seeded/results.json (one entry per seeded change and check; the latest run wins) and INDEX.md is rebuilt from it
        rp = os.path.join(ROOT, "seeded", "results.json")
        res = json.load(open(rp)) if os.path.exists(rp) else {}
        rev = sh(["git", "-C", ROOT, "rev-parse", "--short", "HEAD"]).stdout.strip()
        for r in rows:
            res[f"{r[0]}|{r[2]}"] = {"seed": r[0], "breaks": r[1], "check": r[2], "result": r[3], "keys": r[4] if len(r) > 4 else "", "seconds": r[5] if len(r) > 5 else "",
                                      "tier": a.tier, "verif_rev": rev}
        json.dump(res, open(rp, "w"), indent=1, sort_keys=True)
        with open(os.path.join(ROOT, "seeded", "INDEX.md"), "w") as f:
            ncaught = sum(1 for v in res.values() if str(v["result"]).startswith("caught"))
            f.write("# Seeded property-breaking changes and the checks that catch them\n\n(rebuilt by tools/run_seeded.py from seeded/results.json; %d of %d rows caught)\n\n"
                    "| seeded change | breaks | check run | tier | result | issue keys | s | /verif rev |\n|---|---|---|---|---|---|---|---|\n" % (ncaught, len(res)))
            for k in sorted(res):
                v = res[k]
                f.write(f"| {v['seed']} | {v['breaks']} | {v['check']} | {v['tier']} | {v['result']} | {v['keys']} | {v['seconds']} | {v['verif_rev']} |\n")
    bad = [r for r in rows if not str(r[3]).startswith("caught")]
    print(f"{len(rows) - len(bad)}/{len(rows)} caught")
    return 1 if bad else 0


if __name__ == "__main__":
    sys.exit(main())
